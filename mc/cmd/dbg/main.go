package main

import (
	"fmt"
	"os"
	"strings"

	"verifmc/scen"
)

func main() {
	hist := strings.Split(os.Args[1], " ; ")
	for run := 0; run < 20; run++ {
		vs := scen.DebugRun(os.Args[2], hist)
		fmt.Println(run, len(vs))
		for _, v := range vs {
			fmt.Println("   ", v.Signature, v.Detail)
		}
	}
}
