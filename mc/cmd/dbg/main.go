package main

import (
	"fmt"

	"verifmc/scen"
)

func main() {
	w, err := scen.NewWriters("eventlog", 2, scen.LogAlphabet("one"))
	if err != nil {
		panic(err)
	}
	for _, a := range []string{`w1:add("x")`, `w0:add("x")`, "m10"} {
		if err := w.Do(a); err != nil {
			panic(err)
		}
	}
	for i, s := range w.Stores {
		fmt.Println("replica", i)
		for _, e := range s.OpLog().Values().Slice() {
			fmt.Printf("  %s t=%d id=%x key=%x\n", w.EID(e), e.GetClock().GetTime(), e.GetClock().GetID(), e.GetKey())
		}
	}
}
