package main

import (
	"fmt"
	"os"

	"verifmc/scen"
)

// scratch debugging entry point: dbg net <action>... replays a history in the C02 network world, printing
// the enabled actions after every step and the final-phase verdict.
func main() {
	if len(os.Args) > 1 && os.Args[1] == "net" {
		scen.DebugNet(os.Args[2:])
		return
	}
	if len(os.Args) > 1 && os.Args[1] == "fgdfs" {
		scen.DebugFetchGatedDFS()
		return
	}
	if len(os.Args) > 1 && os.Args[1] == "fg" {
		scen.DebugFetchGated(func(en []string) int {
			for i, a := range en {
				if len(a) > 8 && a[:8] == "exchange" {
					return i
				}
			}
			return 0
		})
		return
	}
	out, vs := scen.RunPubSubRawDebug()
	fmt.Println(out, len(vs))
	for _, v := range vs {
		fmt.Println(v.Signature, v.Detail)
	}
}
