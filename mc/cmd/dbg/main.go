package main

import (
	"fmt"

	"verifmc/scen"
)

func main() {
	out, vs := scen.RunPubSubRawDebug()
	fmt.Println(out, len(vs))
	for _, v := range vs {
		fmt.Println(v.Signature, v.Detail)
	}
}
