package main

import (
	"context"
	"fmt"
	"time"

	"berty.tech/go-orbit-db/accesscontroller"
	orbitdb "berty.tech/go-orbit-db"
	"verifmc/sim"
)

func main() {
	t0 := time.Now()
	net := sim.NewNet()
	net.PubSub.AutoDeliver = true
	a, b := net.AddPeer("A"), net.AddPeer("B")
	ia, err := a.Start(nil)
	if err != nil {
		panic(err)
	}
	ib, err := b.Start(nil)
	if err != nil {
		panic(err)
	}
	ctx := context.Background()
	ac := accesscontroller.NewEmptyManifestParams()
	ac.SetAccess("write", []string{ia.DB.Identity().ID, ib.DB.Identity().ID})
	f := false
	sa, err := ia.DB.KeyValue(ctx, "db1", &orbitdb.CreateDBOptions{AccessController: ac, Replicate: &f})
	if err != nil {
		panic(err)
	}
	fmt.Println("addr", sa.Address())
	for i := 0; i < 3; i++ {
		if _, err := sa.Put(ctx, fmt.Sprintf("k%d", i), []byte("v")); err != nil {
			panic(err)
		}
	}
	sb, err := ib.DB.KeyValue(ctx, sa.Address().String(), &orbitdb.CreateDBOptions{Replicate: &f})
	if err != nil {
		panic(err)
	}
	if err := sb.Sync(ctx, sa.OpLog().Heads().Slice()); err != nil {
		panic(err)
	}
	t1 := time.Now()
	if err := sim.Quiesce(); err != nil {
		panic(err)
	}
	fmt.Println("quiesce", time.Since(t1), "total", time.Since(t0))
	fmt.Println("B all:", len(sb.All()), sb.OpLog().Len())
	for _, g := range sim.RepoGoroutines() {
		fmt.Println("  ", g)
	}
	ia.Close()
	ib.Close()
	sim.Quiesce()
	fmt.Println("after close:")
	for _, g := range sim.RepoGoroutines() {
		fmt.Println("  ", g)
	}
}
