package main

import (
	"fmt"
	"os"
	"path/filepath"

	"verifmc/explore"
	_ "verifmc/scen"
)

func main() {
	if len(os.Args) < 2 {
		fmt.Fprintln(os.Stderr, "usage: verifmc check <ID> <quick|thorough> | worker <spec> | replay <ID> <file>")
		os.Exit(0)
	}
	self, _ := os.Executable()
	verifDir := os.Getenv("VERIF_DIR")
	if verifDir == "" {
		verifDir = "/verif"
	}
	verifDir, _ = filepath.Abs(verifDir)
	switch os.Args[1] {
	case "worker":
		explore.WorkerMain(os.Args[2])
	case "check":
		tier := "quick"
		if len(os.Args) > 3 {
			tier = os.Args[3]
		}
		os.Exit(explore.ParentMain(self, os.Args[2], tier, verifDir))
	case "replay":
		os.Exit(explore.ReplayMain(os.Args[2], os.Args[3]))
	case "list":
		for _, id := range explore.IDs() {
			fmt.Println(id)
		}
	}
}
