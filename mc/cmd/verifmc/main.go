package main

import (
	"fmt"
	"os"
	"path/filepath"

	"verifmc/explore"
	"verifmc/scen"
)

func main() {
	if len(os.Args) < 2 {
		fmt.Fprintln(os.Stderr, "usage: verifmc check <ID> <quick|thorough> | worker <spec> | replay <ID> <file>")
		os.Exit(0)
	}
	self, _ := os.Executable()
	verifDir := os.Getenv("VERIF_DIR")
	if verifDir == "" {
		verifDir = "/verif"
	}
	verifDir, _ = filepath.Abs(verifDir)
	switch os.Args[1] {
	case "worker":
		explore.WorkerMain(os.Args[2])
	case "check":
		tier := "quick"
		if len(os.Args) > 3 {
			tier = os.Args[3]
		}
		os.Exit(explore.ParentMain(self, os.Args[2], tier, verifDir))
	case "replay":
		os.Exit(explore.ReplayMain(os.Args[2], os.Args[3]))
	case "racepass":
		// advisory free-running pass for a binary built with -race (tools/racepass.sh)
		rounds := 3
		if len(os.Args) > 2 {
			fmt.Sscanf(os.Args[2], "%d", &rounds)
		}
		ran, problems := scen.RacePass(rounds)
		fmt.Printf("racepass: bodies=%d oracle_mismatches=%d\n", len(ran), len(problems))
		for _, p := range problems {
			fmt.Println("  mismatch:", p)
		}
	case "list":
		for _, id := range explore.IDs() {
			fmt.Println(id)
		}
	}
}
