package explore

import (
	"fmt"
	"strconv"
	"strings"
)

// Case is one element of a finite, enumerated input family.
type Case struct {
	ID         string
	Nontrivial bool
	// Run executes the case on a fresh world and returns what the oracle found plus an outcome label.
	Run func() (outcome string, vs []Violation)
}

// ChunkUnits splits a case list into n units by index modulo n.
func ChunkUnits(prefix string, n int) []Unit {
	var out []Unit
	for i := 0; i < n; i++ {
		out = append(out, Unit{Name: fmt.Sprintf("%s/chunk%d.%d", prefix, i, n), Arg: fmt.Sprintf("%s|%d|%d", prefix, i, n)})
	}
	return out
}

// ParseChunk decodes a ChunkUnits argument.
func ParseChunk(arg string) (prefix string, i, n int) {
	p := strings.Split(arg, "|")
	if len(p) != 3 {
		return arg, 0, 1
	}
	i, _ = strconv.Atoi(p[1])
	n, _ = strconv.Atoi(p[2])
	return p[0], i, n
}

// RunCases executes the cases of this worker's chunk, journalling each before it runs so that a crash is
// attributed to the case, and resuming after a crashed case when told to.
func RunCases(c *Ctx, prop string, cases []Case, chunk, chunks int) {
	for idx, cs := range cases {
		if ReplayOnly != nil {
			if len(ReplayOnly) == 0 || cs.ID != ReplayOnly[0] {
				continue
			}
		} else if chunks > 1 && idx%chunks != chunk {
			continue
		}
		if idx <= c.Spec.ResumeAfter {
			continue
		}
		if c.Expired() {
			c.Stats.CapsHit = append(c.Stats.CapsHit, fmt.Sprintf("%s: time budget reached at case %d of %d", c.Spec.Unit.Name, idx, len(cases)))
			return
		}
		c.JournalCase(idx, cs.ID)
		outcome, vs := cs.Run()
		c.Stats.Executions++
		c.Stats.Checks++
		c.Stats.Transitions++
		c.Stats.State(prop + "|" + cs.ID)
		if cs.Nontrivial {
			c.Stats.NontrivialCase(cs.ID)
		}
		if outcome != "" {
			c.Stats.Outcome(outcome)
		}
		if len(c.Stats.Samples) < 5 {
			c.Stats.Sample(cs.ID + " => " + outcome)
		}
		for _, v := range vs {
			v.Property = prop
			v.Scenario = c.Spec.Unit.Name
			if len(v.History) == 0 {
				v.History = []string{cs.ID}
			}
			c.Stats.Violate(v)
		}
		c.Flush()
	}
}
