package explore

import (
	"strings"
	"testing"
)

func TestCrashSignatureOnlyPanickingGoroutine(t *testing.T) {
	dump := "panic: runtime error: slice bounds out of range [:-9223372036854775808]\n\ngoroutine 1 [running]:\nverifmc/scen.refWindow(...)\n\t/verif/mc/scen/c08.go:80 +0x1\nmain.main()\n\t/verif/mc/cmd/verifmc/main.go:20 +0x2\n\ngoroutine 55 [select]:\nberty.tech/go-orbit-db/baseorbitdb.(*orbitDB).monitorDirectChannel.func1()\n\t/repo/baseorbitdb/orbitdb.go:840 +0x3\n"
	sig, _ := crashSignature(dump)
	if !strings.HasSuffix(sig, " @ -") {
		t.Fatalf("harness panic attributed to the repository: %s", sig)
	}
	dump2 := "panic: runtime error: makeslice: len out of range\n\ngoroutine 9 [running]:\nberty.tech/go-orbit-db/pubsub/directchannel.(*directChannel).handleNewPeer(0x1, {0x2, 0x3})\n\t/repo/pubsub/directchannel/channel.go:72 +0x1\n\ngoroutine 1 [chan receive]:\nmain.main()\n"
	sig2, _ := crashSignature(dump2)
	if !strings.Contains(sig2, "handleNewPeer") {
		t.Fatalf("repository panic not attributed: %s", sig2)
	}
}
