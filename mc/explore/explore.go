// Package explore holds the generic search engines: explicit-state DFS by replay over a World, and the
// bookkeeping shared by every check (counters, state-key sets, violations, samples).
package explore

import (
	"fmt"
	"hash/fnv"
	"os"
	"sort"
	"strings"
)

// Violation is one oracle failure with the history that reproduces it.
// ReplayOnly, when set (by `verifmc replay`), makes every engine execute exactly this history instead of
// searching.
var ReplayOnly []string

type Violation struct {
	UnitArg   string   `json:"unit_arg,omitempty"`
	Property  string   `json:"property"`
	Signature string   `json:"signature"` // stable identifier of *what* fails (matched against known findings)
	Detail    string   `json:"detail"`
	Scenario  string   `json:"scenario"` // unit / configuration the history belongs to
	History   []string `json:"history"`
	Crash     bool     `json:"crash,omitempty"`
}

// Stats are the coverage counters of one worker (merged by the parent).
type Stats struct {
	Executions  int               `json:"executions"`  // worlds built / cases run
	Transitions int               `json:"transitions"` // actions executed on the implementation
	Checks      int               `json:"checks"`      // oracle evaluations
	Replays     int               `json:"replays"`     // prefixes replayed with identical state keys
	Pruned      int               `json:"pruned"`
	Nontrivial  int               `json:"nontrivial"`
	MaxDepth    int               `json:"max_depth"`
	StateHashes []uint64          `json:"state_hashes,omitempty"`
	NontrivSet  []uint64          `json:"nontriv_hashes,omitempty"`
	Outcomes    map[string]int    `json:"outcomes,omitempty"` // distinct observed outcomes -> count
	Samples     []string          `json:"samples,omitempty"`
	Notes       map[string]string `json:"notes,omitempty"`
	Counters    map[string]int    `json:"counters,omitempty"`
	CapsHit     []string          `json:"caps_hit,omitempty"`
	HarnessErrs []string          `json:"harness_errors,omitempty"`
	Violations  []Violation       `json:"violations,omitempty"`

	states  map[uint64]struct{}
	nontriv map[uint64]struct{}
}

func NewStats() *Stats {
	return &Stats{Outcomes: map[string]int{}, Notes: map[string]string{}, Counters: map[string]int{},
		states: map[uint64]struct{}{}, nontriv: map[uint64]struct{}{}}
}

func Hash(s string) uint64 {
	h := fnv.New64a()
	h.Write([]byte(s))
	return h.Sum64()
}

// State records a distinct state key; it reports whether the key is new.
func (s *Stats) State(key string) bool {
	h := Hash(key)
	if _, ok := s.states[h]; ok {
		return false
	}
	s.states[h] = struct{}{}
	return true
}

// NontrivialCase records a distinct non-trivial case by its identifying string.
func (s *Stats) NontrivialCase(id string) {
	s.nontriv[Hash(id)] = struct{}{}
}

func (s *Stats) Outcome(o string) { s.Outcomes[o]++ }
func (s *Stats) Count(c string)   { s.Counters[c]++ }
func (s *Stats) Sample(x string) {
	if len(s.Samples) < 6 {
		s.Samples = append(s.Samples, x)
	}
}
func (s *Stats) Violate(v Violation) {
	for i, o := range s.Violations {
		if o.Signature == v.Signature {
			s.Counters["violations_same_signature"]++
			if len(v.History) < len(o.History) {
				s.Violations[i] = v // keep the shortest witness per signature
			}
			return
		}
	}
	s.Violations = append(s.Violations, v)
}

// Seal prepares the stats for serialisation.
func (s *Stats) Seal() {
	s.StateHashes = s.StateHashes[:0]
	for h := range s.states {
		s.StateHashes = append(s.StateHashes, h)
	}
	sort.Slice(s.StateHashes, func(i, j int) bool { return s.StateHashes[i] < s.StateHashes[j] })
	s.NontrivSet = s.NontrivSet[:0]
	for h := range s.nontriv {
		s.NontrivSet = append(s.NontrivSet, h)
	}
	sort.Slice(s.NontrivSet, func(i, j int) bool { return s.NontrivSet[i] < s.NontrivSet[j] })
}

// Merge folds another worker's stats into s.
func (s *Stats) Merge(o *Stats) {
	s.Executions += o.Executions
	s.Transitions += o.Transitions
	s.Checks += o.Checks
	s.Replays += o.Replays
	s.Pruned += o.Pruned
	if o.MaxDepth > s.MaxDepth {
		s.MaxDepth = o.MaxDepth
	}
	for _, h := range o.StateHashes {
		s.states[h] = struct{}{}
	}
	for _, h := range o.NontrivSet {
		s.nontriv[h] = struct{}{}
	}
	for k, v := range o.Outcomes {
		s.Outcomes[k] += v
	}
	for k, v := range o.Counters {
		s.Counters[k] += v
	}
	for k, v := range o.Notes {
		s.Notes[k] = v
	}
	for _, x := range o.Samples {
		s.Sample(x)
	}
	s.CapsHit = append(s.CapsHit, o.CapsHit...)
	s.HarnessErrs = append(s.HarnessErrs, o.HarnessErrs...)
	for _, v := range o.Violations {
		s.Violate(v)
	}
}

func (s *Stats) NumStates() int     { return len(s.states) }
func (s *Stats) NumNontrivial() int { return len(s.nontriv) }

// World is a live instance of the system under test plus its environment.
type World interface {
	// Enabled lists the actions possible in the current state, in canonical order (simplest first).
	Enabled() []string
	// Do executes one action on the implementation and waits for quiescence.
	Do(action string) error
	// Key is the canonical state ("" disables pruning for this state).
	Key() string
	// Check evaluates the oracles in the current state.
	Check(hist []string) []Violation
	// Close tears the world down (must not leak goroutines into the next world).
	Close()
}

// DFS is an explicit-state depth-first search by replay with visited-state pruning.
type DFS struct {
	Scenario string
	Space    string // state-space name shared by all shards of one search (for distinct-state counting)
	New      func() (World, error)
	MaxDepth int
	// Shard selection: subtrees rooted at depth ShardDepth are numbered in DFS order; only those with
	// index%Shards==Shard are explored. Nodes above ShardDepth are expanded by every shard.
	ShardDepth, Shards, Shard int
	Stats                     *Stats
	// Journal, if set, is called with the history about to be executed (crash attribution).
	Journal func(hist []string)
	// Poison lists histories (joined by " ; ") that must not be executed (known crashers).
	Poison map[string]bool
	// Nontrivial, if set, classifies a state reached by hist as non-trivial.
	Nontrivial func(hist []string, w World) bool
	// Final, if set, runs a final-phase oracle for the state reached by hist on a world of its own
	// (called once per distinct expanded state).
	Final func(hist []string) []Violation
	// Deadline check: returns true when the time budget is exhausted.
	Expired func() bool

	confirmed  map[string]bool
	seen       map[uint64]int
	shardCount int
	expired    bool
}

func HistKey(h []string) string { return strings.Join(h, " ; ") }

func (d *DFS) build(hist []string, keys []string) (World, error) {
	if d.Journal != nil {
		d.Journal(hist)
	}
	w, err := d.New()
	if err != nil {
		return nil, err
	}
	d.Stats.Executions++
	for i, a := range hist {
		if err := w.Do(a); err != nil {
			w.Close()
			return nil, fmt.Errorf("replay %q step %d: %w", HistKey(hist), i, err)
		}
		d.Stats.Transitions++
		if i < len(keys)-1 { // keys[i+1] is the key after hist[:i+1]
			if k := w.Key(); k != keys[i+1] {
				w.Close()
				return nil, fmt.Errorf("NONDETERMINISM replaying %q: state after step %d differs\n was: %s\n now: %s", HistKey(hist), i, keys[i+1], k)
			}
		}
	}
	if len(hist) > 0 {
		d.Stats.Replays++
	}
	return w, nil
}

// confirm replays hist on fresh worlds and requires the same violation signature every time; a violation
// that does not reproduce is uncaptured nondeterminism of the harness, not a finding.
func (d *DFS) confirm(hist []string, sig string) bool {
	const runs = 4
	hits := 0
	for r := 0; r < runs; r++ {
		w, err := d.build(hist, nil)
		if err != nil {
			continue
		}
		for _, v := range w.Check(hist) {
			if v.Signature == sig {
				hits++
				break
			}
		}
		w.Close()
	}
	if hits == runs {
		return true
	}
	d.Stats.HarnessErrs = append(d.Stats.HarnessErrs, fmt.Sprintf("%s: violation %q after %q reproduced only %d/%d times; treated as uncaptured nondeterminism", d.Scenario, sig, HistKey(hist), hits, runs))
	return false
}

// replay executes one history step by step, evaluating the oracles after every step (and the final phase
// if the history ends with it).
func (d *DFS) replay(hist []string) {
	final := false
	if n := len(hist); n > 0 && hist[n-1] == "<final phase>" {
		final, hist = true, hist[:n-1]
	}
	w, err := d.New()
	if err != nil {
		d.Stats.HarnessErrs = append(d.Stats.HarnessErrs, err.Error())
		return
	}
	d.Stats.Executions++
	record := func(vs []Violation, h []string) {
		for _, v := range vs {
			v.Scenario, v.History = d.Scenario, append([]string{}, h...)
			d.Stats.Violations = append(d.Stats.Violations, v)
		}
	}
	record(w.Check(nil), nil)
	for i, a := range hist {
		if err := w.Do(a); err != nil {
			d.Stats.HarnessErrs = append(d.Stats.HarnessErrs, fmt.Sprintf("replay step %d %q: %v", i, a, err))
			break
		}
		d.Stats.Transitions++
		fmt.Printf("  step %d: %s\n    state: %s\n", i+1, a, w.Key())
		record(w.Check(hist[:i+1]), hist[:i+1])
	}
	w.Close()
	if final && d.Final != nil {
		record(d.Final(hist), append(append([]string{}, hist...), "<final phase>"))
	}
}

// Run explores from the initial state.
func (d *DFS) Run() {
	if ReplayOnly != nil {
		d.replay(ReplayOnly)
		return
	}
	d.seen = map[uint64]int{}
	d.explore(nil, nil, nil)
	if d.expired {
		d.Stats.CapsHit = append(d.Stats.CapsHit, "time budget reached in "+d.Scenario)
	}
}

// explore visits the state reached by hist. keys[i] is the state key after hist[:i] (keys[0] initial).
func (d *DFS) explore(hist []string, keys []string, w World) {
	if d.Expired != nil && d.Expired() {
		d.expired = true
		if w != nil {
			w.Close()
		}
		return
	}
	if d.Poison[HistKey(hist)] {
		if w != nil {
			w.Close()
		}
		return
	}
	if w == nil {
		var err error
		for attempt := 0; ; attempt++ {
			w, err = d.build(hist, keys)
			if err == nil {
				break
			}
			if attempt >= 2 {
				d.Stats.HarnessErrs = append(d.Stats.HarnessErrs, d.Scenario+": "+err.Error())
				return
			}
		}
	}
	if len(hist) > d.Stats.MaxDepth {
		d.Stats.MaxDepth = len(hist)
	}
	key := w.Key()
	d.Stats.Checks++
	for _, v := range w.Check(hist) {
		v.Scenario = d.Scenario
		v.History = append([]string{}, hist...)
		if d.confirmed == nil {
			d.confirmed = map[string]bool{}
		}
		ok, done := d.confirmed[v.Signature]
		if !done {
			ok = d.confirm(hist, v.Signature)
			d.confirmed[v.Signature] = ok
		}
		if ok {
			d.Stats.Violate(v)
		}
	}
	if d.Nontrivial != nil && d.Nontrivial(hist, w) {
		d.Stats.NontrivialCase(d.Space + "|" + key)
	}
	d.Stats.State(d.Space + "|" + key)
	rem := d.MaxDepth - len(hist)
	depth := len(hist)
	if depth == d.ShardDepth && d.Shards > 1 {
		idx := d.shardCount
		d.shardCount++
		if idx%d.Shards != d.Shard {
			w.Close()
			return
		}
	}
	if depth >= d.ShardDepth && key != "" {
		h := Hash(key)
		if prev, ok := d.seen[h]; ok && prev >= rem+1 {
			d.Stats.Pruned++
			w.Close()
			return
		}
		d.seen[h] = rem + 1
	}
	if d.Final != nil {
		d.Stats.Executions++
		for _, v := range d.Final(hist) {
			v.Scenario = d.Scenario
			v.History = append(append([]string{}, hist...), "<final phase>")
			d.Stats.Violate(v)
		}
	}
	if rem <= 0 {
		if len(d.Stats.Samples) < 4 {
			d.Stats.Sample(d.Scenario + ": " + HistKey(hist))
		}
		w.Close()
		return
	}
	acts := w.Enabled()
	nkeys := append(append([]string{}, keys...), key)
	if len(keys) == 0 {
		nkeys = []string{key}
	}
	for i, a := range acts {
		nh := append(append([]string{}, hist...), a)
		if i == 0 {
			if d.Poison[HistKey(nh)] {
				w.Close()
				continue
			}
			if d.Journal != nil {
				d.Journal(nh)
			}
			if err := w.Do(a); err != nil {
				d.Stats.HarnessErrs = append(d.Stats.HarnessErrs, fmt.Sprintf("%s: do %q after %q: %v", d.Scenario, a, HistKey(hist), err))
				w.Close()
				continue
			}
			d.Stats.Transitions++
			d.explore(nh, nkeys, w)
		} else {
			d.explore(nh, nkeys, nil)
		}
	}
	if len(acts) == 0 {
		w.Close()
	}
}

// Fatalf reports a harness failure without raising an alarm: message on stderr, exit status 0 is decided
// by the caller.
func Fatalf(format string, a ...interface{}) {
	fmt.Fprintf(os.Stderr, "HARNESS: "+format+"\n", a...)
}
