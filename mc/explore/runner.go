package explore

import (
	"bytes"
	"encoding/json"
	"fmt"
	"os"
	"os/exec"
	"path/filepath"
	"regexp"
	"runtime"
	"sort"
	"strconv"
	"strings"
	"sync"
	"time"
)

// Unit is one independently runnable piece of a check (a configuration, a shard of a search, a chunk of
// a case list). Units run in worker processes.
type Unit struct {
	Name string `json:"name"`
	Arg  string `json:"arg"` // opaque to the runner
}

// Spec is what the parent hands to a worker process.
type Spec struct {
	Check       string   `json:"check"`
	Tier        string   `json:"tier"`
	Seed        int64    `json:"seed"`
	Unit        Unit     `json:"unit"`
	Poison      []string `json:"poison,omitempty"`
	ResumeAfter int      `json:"resume_after"` // list units: skip cases with index <= ResumeAfter (-1: none)
	Journal     string   `json:"journal"`
	Result      string   `json:"result"`
	DeadlineSec float64  `json:"deadline_sec"`
}

// CheckDef describes one property check.
type CheckDef struct {
	ID    string
	Level string // evidence level
	Rule  string // how cases are generated and what counts as non-trivial
	// Units lists the work for a tier.
	Units func(tier string) []Unit
	// RunUnit executes one unit inside a worker process.
	RunUnit func(c *Ctx)
	// Budget is the wall-clock budget per tier (seconds) after which workers stop and report exhaustive:false.
	Budget      func(tier string) float64
	Assumptions []string
	// Replay re-executes one violation artefact and reports what it observes.
	Replay func(v Violation) []Violation
}

// Ctx is the worker-side context of one unit.
type Ctx struct {
	Spec    Spec
	Stats   *Stats
	start   time.Time
	journal *os.File
	caseIdx int
}

func (c *Ctx) Expired() bool {
	return c.Spec.DeadlineSec > 0 && time.Since(c.start).Seconds() > c.Spec.DeadlineSec
}

// JournalHist records the history about to be executed.
func (c *Ctx) JournalHist(hist []string) { c.JournalLine("H " + HistKey(hist)) }

// JournalCase records the index and id of the list case about to be executed.
func (c *Ctx) JournalCase(idx int, id string) { c.JournalLine(fmt.Sprintf("C %d %s", idx, id)) }

func (c *Ctx) JournalLine(s string) {
	if c.journal == nil {
		return
	}
	_, _ = c.journal.WriteAt([]byte(fmt.Sprintf("%-8d%s\n", len(s), s)), 0)
}

// Flush writes the statistics gathered so far, so that they survive a crash of this worker.
func (c *Ctx) Flush() {
	c.Stats.Seal()
	out, err := json.Marshal(c.Stats)
	if err != nil {
		return
	}
	if err := os.WriteFile(c.Spec.Result+".partial.tmp", out, 0o644); err == nil {
		_ = os.Rename(c.Spec.Result+".partial.tmp", c.Spec.Result+".partial")
	}
}

func (c *Ctx) PoisonSet() map[string]bool {
	m := map[string]bool{}
	for _, p := range c.Spec.Poison {
		m[p] = true
	}
	return m
}

var registry = map[string]*CheckDef{}

func Register(c *CheckDef) { registry[c.ID] = c }
func Lookup(id string) *CheckDef {
	return registry[id]
}
func IDs() []string {
	var out []string
	for id := range registry {
		out = append(out, id)
	}
	sort.Strings(out)
	return out
}

// WorkerMain runs one unit as described by the spec file and writes the result file.
func WorkerMain(specPath string) {
	b, err := os.ReadFile(specPath)
	if err != nil {
		Fatalf("read spec: %v", err)
		os.Exit(3)
	}
	var spec Spec
	if err := json.Unmarshal(b, &spec); err != nil {
		Fatalf("spec: %v", err)
		os.Exit(3)
	}
	def := Lookup(spec.Check)
	if def == nil {
		Fatalf("unknown check %s", spec.Check)
		os.Exit(3)
	}
	ctx := &Ctx{Spec: spec, Stats: NewStats(), start: time.Now()}
	if spec.Journal != "" {
		ctx.journal, _ = os.OpenFile(spec.Journal, os.O_CREATE|os.O_RDWR|os.O_TRUNC, 0o644)
	}
	def.RunUnit(ctx)
	for i := range ctx.Stats.Violations {
		if ctx.Stats.Violations[i].UnitArg == "" {
			ctx.Stats.Violations[i].UnitArg = spec.Unit.Arg
		}
	}
	ctx.Stats.Seal()
	out, _ := json.Marshal(ctx.Stats)
	if err := os.WriteFile(spec.Result+".tmp", out, 0o644); err == nil {
		_ = os.Rename(spec.Result+".tmp", spec.Result)
	}
}

// Finding is one entry of /verif/known_findings.json.
type Finding struct {
	Property  string `json:"property"`
	Signature string `json:"signature"` // regular expression matched against Violation.Signature (anchored)
	What      string `json:"what"`
}
type FindingsFile struct {
	Known []Finding `json:"known"`
	Fixed []string  `json:"fixed"`
}

func LoadFindings(path string) FindingsFile {
	var f FindingsFile
	b, err := os.ReadFile(path)
	if err != nil {
		return f
	}
	_ = json.Unmarshal(b, &f)
	return f
}

var panicTop = regexp.MustCompile(`(?m)^(berty\.tech/go-orbit-db/[^\s(]+(?:\([^)]*\))?[^\s(]*)\(`)

// crashSignature extracts "panic class @ innermost go-orbit-db frame" from a crashed worker's stderr.
func crashSignature(stderr string) (sig, excerpt string) {
	class := "exit"
	lines := strings.Split(stderr, "\n")
	at := -1
	for i, l := range lines {
		if strings.HasPrefix(l, "panic: ") || strings.HasPrefix(l, "fatal error: ") {
			class = l
			at = i
			break
		}
	}
	if at < 0 {
		if len(stderr) > 600 {
			stderr = stderr[len(stderr)-600:]
		}
		return "crash:" + class, stderr
	}
	// normalise addresses and sizes
	class = regexp.MustCompile(`0x[0-9a-f]+`).ReplaceAllString(class, "0x?")
	class = regexp.MustCompile(`\[[^\]]*\]`).ReplaceAllString(class, "[..]")
	class = regexp.MustCompile(`\d+`).ReplaceAllString(class, "N")
	frame := "-"
	rest := strings.Join(lines[at:], "\n")
	// only the panicking goroutine's stack counts (the dump lists every goroutine): it ends at the first blank
	// line after its "goroutine N [running]:" header
	if i := strings.Index(rest, "\ngoroutine "); i >= 0 {
		if j := strings.Index(rest[i+1:], "\n\n"); j >= 0 {
			rest = rest[:i+1+j]
		}
	}
	if m := panicTop.FindStringSubmatch(rest); m != nil {
		frame = m[1]
		frame = strings.TrimPrefix(frame, "berty.tech/go-orbit-db/")
	}
	end := at + 40
	if end > len(lines) {
		end = len(lines)
	}
	return "crash:" + class + " @ " + frame, strings.Join(lines[at:end], "\n")
}

func readJournal(path string) string {
	b, err := os.ReadFile(path)
	if err != nil || len(b) < 9 {
		return ""
	}
	n, err := strconv.Atoi(strings.TrimSpace(string(b[:8])))
	if err != nil || 8+n > len(b) {
		return ""
	}
	return string(b[8 : 8+n])
}

type unitOutcome struct {
	stats *Stats
}

// ParentMain runs a check: fans units out to worker processes, merges results, triages violations against
// the known findings, writes evidence and replay artefacts, and returns the process exit status.
func ParentMain(self string, id, tier string, verifDir string) int {
	def := Lookup(id)
	if def == nil {
		fmt.Fprintf(os.Stderr, "unknown check %s\n", id)
		return 0
	}
	start := time.Now()
	seed := int64(0)
	if s := os.Getenv("VERIF_SEED"); s != "" {
		seed, _ = strconv.ParseInt(s, 10, 64)
	}
	units := def.Units(tier)
	budget := 0.0
	if def.Budget != nil {
		budget = def.Budget(tier)
	}
	workers := runtime.NumCPU()
	if w := os.Getenv("VERIF_WORKERS"); w != "" {
		if n, err := strconv.Atoi(w); err == nil && n > 0 {
			workers = n
		}
	}
	if workers > len(units) {
		workers = len(units)
	}
	tmp, err := os.MkdirTemp("", "verifmc-"+id+"-")
	if err != nil {
		Fatalf("tmp: %v", err)
		return 0
	}
	defer os.RemoveAll(tmp)

	total := NewStats()
	var mu sync.Mutex
	incomplete := []string{}
	jobs := make(chan int)
	var wg sync.WaitGroup
	for wi := 0; wi < workers; wi++ {
		wg.Add(1)
		go func(wi int) {
			defer wg.Done()
			for ui := range jobs {
				u := units[ui]
				var poison []string
				resume := -1
				crashes := 0
				for {
					remaining := budget - time.Since(start).Seconds()
					if budget > 0 && remaining < 1 {
						mu.Lock()
						incomplete = append(incomplete, u.Name+": not started/resumed, budget exhausted")
						mu.Unlock()
						break
					}
					spec := Spec{Check: id, Tier: tier, Seed: seed, Unit: u, Poison: poison, ResumeAfter: resume,
						Journal:     filepath.Join(tmp, fmt.Sprintf("j%d", ui)),
						Result:      filepath.Join(tmp, fmt.Sprintf("r%d-%d", ui, crashes)),
						DeadlineSec: remaining}
					sp := filepath.Join(tmp, fmt.Sprintf("s%d", ui))
					sb, _ := json.Marshal(spec)
					_ = os.WriteFile(sp, sb, 0o644)
					_ = os.Remove(spec.Journal)
					cmd := exec.Command(self, "worker", sp)
					cmd.Env = append(os.Environ(), "GOMAXPROCS=2", "GOTRACEBACK=all")
					var stderr bytes.Buffer
					cmd.Stderr = &stderr
					cmd.Stdout = &stderr
					done := make(chan error, 1)
					if err := cmd.Start(); err != nil {
						mu.Lock()
						total.HarnessErrs = append(total.HarnessErrs, "start worker: "+err.Error())
						mu.Unlock()
						break
					}
					go func() { done <- cmd.Wait() }()
					var werr error
					hung := false
					limit := time.Duration((remaining+60)*float64(time.Second))
					if budget <= 0 {
						limit = 6 * time.Hour
					}
					select {
					case werr = <-done:
					case <-time.After(limit):
						hung = true
						_ = cmd.Process.Kill()
						werr = <-done
					}
					rb, rerr := os.ReadFile(spec.Result)
					if rerr == nil && werr == nil {
						var st Stats
						if json.Unmarshal(rb, &st) == nil {
							mu.Lock()
							total.Merge(&st)
							mu.Unlock()
						}
						break
					}
					// the worker died: keep what it had finished, attribute the death to the journalled case
					if pb, perr := os.ReadFile(spec.Result + ".partial"); perr == nil {
						var st Stats
						if json.Unmarshal(pb, &st) == nil {
							mu.Lock()
							total.Merge(&st)
							mu.Unlock()
						}
					}
					j := readJournal(spec.Journal)
					es := stderr.String()
					if hung {
						mu.Lock()
						incomplete = append(incomplete, u.Name+": worker exceeded its deadline and was killed at "+j)
						mu.Unlock()
						break
					}
					sig, excerpt := crashSignature(es)
					v := Violation{Property: id, Signature: sig, Detail: excerpt, Scenario: u.Name, Crash: true, UnitArg: u.Arg}
					crashes++
					// a panic whose own stack never enters go-orbit-db (or its log dependency) is the harness's
					harnessOnly := strings.HasPrefix(sig, "crash:panic") && strings.HasSuffix(sig, " @ -") && !strings.Contains(excerpt, "berty.tech/go-ipfs-log")
					if strings.HasPrefix(j, "H ") {
						h := strings.TrimPrefix(j, "H ")
						if h != "" {
							v.History = strings.Split(h, " ; ")
						}
						poison = append(poison, h)
					} else if strings.HasPrefix(j, "C ") {
						parts := strings.SplitN(strings.TrimPrefix(j, "C "), " ", 2)
						idx, _ := strconv.Atoi(parts[0])
						resume = idx
						if len(parts) > 1 {
							v.History = []string{parts[1]}
						}
					} else {
						mu.Lock()
						total.HarnessErrs = append(total.HarnessErrs, u.Name+": worker died without journal: "+excerpt)
						mu.Unlock()
						break
					}
					mu.Lock()
					total.Counters["worker_crashes"]++
					if harnessOnly {
						total.HarnessErrs = append(total.HarnessErrs, u.Name+": the harness itself panicked (no go-orbit-db frame on the panicking stack) at "+strings.Join(v.History, " ; ")+": "+firstLines(excerpt, 12))
					} else {
						total.Violate(v)
					}
					mu.Unlock()
					if crashes > 400 {
						mu.Lock()
						incomplete = append(incomplete, u.Name+": more than 400 crashes, unit abandoned")
						mu.Unlock()
						break
					}
				}
			}
		}(wi)
	}
	for ui := range units {
		jobs <- ui
	}
	close(jobs)
	wg.Wait()

	// triage
	findings := LoadFindings(filepath.Join(verifDir, "known_findings.json"))
	knownHit := map[int]bool{}
	var alarms []Violation
	for _, v := range total.Violations {
		matched := false
		for i, f := range findings.Known {
			if f.Property != id {
				continue
			}
			re, err := regexp.Compile("^(?:" + f.Signature + ")$")
			if err == nil && re.MatchString(v.Signature) {
				matched = true
				knownHit[i] = true
				break
			}
		}
		if !matched {
			alarms = append(alarms, v)
		}
	}
	for i, f := range findings.Known {
		if knownHit[i] {
			fmt.Printf("KNOWN-FINDING: property=%s %s\n", id, f.What)
		}
	}
	repDir := filepath.Join(verifDir, "replays")
	if d := os.Getenv("VERIF_EVIDENCE_DIR"); d != "" {
		repDir = filepath.Join(d, "replays")
	}
	_ = os.MkdirAll(repDir, 0o755)
	exit := 0
	for _, v := range alarms {
		name := fmt.Sprintf("%s-%016x.json", id, Hash(v.Signature+"|"+v.Scenario))
		p := filepath.Join(repDir, name)
		b, _ := json.MarshalIndent(v, "", " ")
		_ = os.WriteFile(p, b, 0o644)
		fmt.Printf("VIOLATION property=%s replay=%s\n", id, p)
		fmt.Printf("  signature: %s\n  scenario: %s\n  history: %s\n  detail: %s\n", v.Signature, v.Scenario, HistKey(v.History), firstLines(v.Detail, 12))
		exit = 1
	}

	exhaustive := len(incomplete) == 0 && len(total.CapsHit) == 0 && len(total.HarnessErrs) == 0
	writeEvidence(def, tier, seed, total, exhaustive, incomplete, len(alarms), len(knownHit), time.Since(start).Seconds(), verifDir, len(units))
	fmt.Printf("%s %s: units=%d executions=%d transitions=%d states=%d checks=%d nontrivial=%d outcomes=%d violations=%d known=%d exhaustive=%v wall=%.1fs\n",
		id, tier, len(units), total.Executions, total.Transitions, total.NumStates(), total.Checks, total.NumNontrivial(), len(total.Outcomes), len(alarms), len(knownHit), exhaustive, time.Since(start).Seconds())
	for _, e := range total.HarnessErrs {
		fmt.Printf("  harness-error: %s\n", firstLines(e, 6))
	}
	for _, e := range incomplete {
		fmt.Printf("  incomplete: %s\n", e)
	}
	for _, e := range total.CapsHit {
		fmt.Printf("  cap: %s\n", e)
	}
	return exit
}

func firstLines(s string, n int) string {
	l := strings.Split(s, "\n")
	if len(l) > n {
		l = append(l[:n], "...")
	}
	return strings.Join(l, "\n    ")
}

func writeEvidence(def *CheckDef, tier string, seed int64, st *Stats, exhaustive bool, incomplete []string, alarms, known int, wall float64, verifDir string, units int) {
	cov := map[string]interface{}{
		"evaluations":         st.Checks,
		"distinct_nontrivial": st.NumNontrivial(),
		"rule":                def.Rule,
		"samples":             st.Samples,
		"exhaustive":          exhaustive,
		"units":               units,
		"executions":          st.Executions,
		"replays_identical":   st.Replays,
		"pruned_revisits":     st.Pruned,
		"max_depth":           st.MaxDepth,
		"distinct_outcomes":   len(st.Outcomes),
		"counters":            st.Counters,
		"notes":               st.Notes,
		"known_findings_hit":  known,
	}
	if len(st.Outcomes) <= 40 {
		cov["outcomes"] = st.Outcomes
	}
	if def.Level == "model_checking" {
		cov["states"] = st.NumStates()
		cov["transitions"] = st.Transitions
		cov["traces_validated_against_impl"] = st.Executions
	}
	if len(incomplete) > 0 {
		cov["incomplete"] = incomplete
	}
	if len(st.CapsHit) > 0 {
		cov["caps_hit"] = st.CapsHit
	}
	if len(st.HarnessErrs) > 0 {
		he := st.HarnessErrs
		if len(he) > 10 {
			he = he[:10]
		}
		cov["harness_errors"] = he
	}
	if len(st.Samples) == 0 {
		cov["samples"] = []string{"(no sample recorded)"}
	}
	ev := map[string]interface{}{
		"property_id": def.ID,
		"tier":        tier,
		"seed":        seed,
		"level":       def.Level,
		"coverage":    cov,
		"assumptions": def.Assumptions,
		"wall_s":      wall,
		"violations":  alarms,
	}
	evDir := filepath.Join(verifDir, "evidence")
	if d := os.Getenv("VERIF_EVIDENCE_DIR"); d != "" {
		evDir = d // self-test runs against deliberately broken trees must not overwrite the real evidence
	}
	_ = os.MkdirAll(evDir, 0o755)
	b, _ := json.MarshalIndent(ev, "", " ")
	_ = os.WriteFile(filepath.Join(evDir, def.ID+".json"), b, 0o644)
}

// ReplayMain re-executes a violation artefact without search, in this process (a crash is then the
// observation). It prints what it observes and exits 1 if the recorded violation shows again.
func ReplayMain(id, path string) int {
	def := Lookup(id)
	if def == nil {
		fmt.Println("unknown check", id)
		return 0
	}
	b, err := os.ReadFile(path)
	if err != nil {
		fmt.Println(err)
		return 0
	}
	var v Violation
	if err := json.Unmarshal(b, &v); err != nil {
		fmt.Println(err)
		return 0
	}
	fmt.Printf("replaying %s\n  scenario: %s\n  history: %s\n  recorded: %s\n", path, v.Scenario, HistKey(v.History), v.Signature)
	ReplayOnly = v.History
	if ReplayOnly == nil {
		ReplayOnly = []string{}
	}
	ctx := &Ctx{Spec: Spec{Check: id, Tier: "quick", Unit: Unit{Name: v.Scenario, Arg: v.UnitArg}, ResumeAfter: -1}, Stats: NewStats(), start: time.Now()}
	def.RunUnit(ctx)
	for _, e := range ctx.Stats.HarnessErrs {
		fmt.Printf("  harness: %s\n", firstLines(e, 5))
	}
	fmt.Printf("observed %d violation(s)\n", len(ctx.Stats.Violations))
	again := false
	for _, g := range ctx.Stats.Violations {
		fmt.Printf("  %s: %s\n", g.Signature, firstLines(g.Detail, 8))
		if g.Signature == v.Signature {
			again = true
		}
	}
	if again {
		fmt.Printf("VIOLATION property=%s replay=%s\n", id, path)
		return 1
	}
	return 0
}
