package explore

import "fmt"

// ScheduleDFS enumerates executions of a World that always run to completion: at every step the
// canonical choice is Enabled()[0]; taking any other enabled action is a deviation. All executions with at
// most Bound deviations are explored (Bound < 0: every execution).
type ScheduleDFS struct {
	Scenario string
	New      func() (World, error)
	Bound    int
	Horizon  int // maximum number of steps of one execution (a cap; hitting it is reported)
	Stats    *Stats
	Journal  func(hist []string)
	Expired  func() bool
	// Terminal is called on the final state of every execution (after Check).
	Terminal func(w World, hist []string) []Violation
	// Settle, if set, is called when no action is enabled; afterwards Enabled is asked again, and only if it is
	// still empty is the execution over (guards the terminal oracle against a quiescence misjudgement).
	Settle func()
	// Shard selection on the first deviation point index.
	Shards, Shard int

	expired   bool
	rootAlts  int
	confirmed map[string]bool
}

type schedRun struct {
	choices []int
	fanout  []int
	hist    []string
	sigs    []string // violation signatures this execution produced
}

// confirmNew re-runs an execution that produced a not yet confirmed violation signature four more times
// and drops the signature (recording a harness note) unless it shows every time.
func (d *ScheduleDFS) confirmNew(prefix []int, r *schedRun) {
	if d.confirmed == nil {
		d.confirmed = map[string]bool{}
	}
	for _, sig := range r.sigs {
		if _, done := d.confirmed[sig]; done {
			continue
		}
		hits := 0
		const runs = 4
		saved := d.Stats.Violations
		for i := 0; i < runs; i++ {
			d.Stats.Violations = nil
			rr, err := d.run(r.choices)
			if err != nil {
				continue
			}
			for _, s2 := range rr.sigs {
				if s2 == sig {
					hits++
					break
				}
			}
		}
		d.Stats.Violations = saved
		d.confirmed[sig] = hits == runs
		if hits != runs {
			d.Stats.HarnessErrs = append(d.Stats.HarnessErrs, fmt.Sprintf("%s: violation %q after %q reproduced only %d/%d times; treated as uncaptured nondeterminism", d.Scenario, sig, HistKey(r.hist), hits, runs))
			kept := d.Stats.Violations[:0]
			for _, v := range d.Stats.Violations {
				if v.Signature != sig {
					kept = append(kept, v)
				}
			}
			d.Stats.Violations = kept
		}
	}
}

func (d *ScheduleDFS) run(prefix []int) (*schedRun, error) {
	w, err := d.New()
	if err != nil {
		return nil, err
	}
	defer w.Close()
	d.Stats.Executions++
	r := &schedRun{}
	for step := 0; ; step++ {
		acts := w.Enabled()
		if len(acts) == 0 && d.Settle != nil {
			d.Settle()
			if acts = w.Enabled(); len(acts) > 0 {
				d.Stats.Count("late_enabled_after_settle")
			}
		}
		if len(acts) == 0 {
			break
		}
		if step >= d.Horizon {
			d.Stats.CapsHit = append(d.Stats.CapsHit, fmt.Sprintf("%s: horizon of %d steps reached", d.Scenario, d.Horizon))
			break
		}
		c := 0
		if step < len(prefix) {
			c = prefix[step]
			if c >= len(acts) {
				return nil, fmt.Errorf("NONDETERMINISM: replaying choice %d at step %d but only %d actions enabled (%v) after %q", c, step, len(acts), acts, HistKey(r.hist))
			}
		}
		a := acts[c]
		r.choices = append(r.choices, c)
		r.fanout = append(r.fanout, len(acts))
		r.hist = append(r.hist, a)
		if d.Journal != nil {
			d.Journal(r.hist)
		}
		if err := w.Do(a); err != nil {
			return nil, fmt.Errorf("do %q after %q: %w", a, HistKey(r.hist[:len(r.hist)-1]), err)
		}
		d.Stats.Transitions++
		d.Stats.Checks++
		for _, v := range w.Check(r.hist) {
			v.Scenario = d.Scenario
			v.History = append([]string{}, r.hist...)
			if ok, done := d.confirmed[v.Signature]; !done || ok {
				d.Stats.Violate(v)
			}
			r.sigs = append(r.sigs, v.Signature)
		}
	}
	if d.Terminal != nil {
		for _, v := range d.Terminal(w, r.hist) {
			v.Scenario = d.Scenario
			v.History = append([]string{}, r.hist...)
			if ok, done := d.confirmed[v.Signature]; !done || ok {
				d.Stats.Violate(v)
			}
			r.sigs = append(r.sigs, v.Signature)
		}
	}
	if len(r.hist) > d.Stats.MaxDepth {
		d.Stats.MaxDepth = len(r.hist)
	}
	d.Stats.State(d.Scenario + "|" + HistKey(r.hist))
	return r, nil
}

// replay executes one schedule given by its action labels.
func (d *ScheduleDFS) replay(hist []string) {
	w, err := d.New()
	if err != nil {
		d.Stats.HarnessErrs = append(d.Stats.HarnessErrs, err.Error())
		return
	}
	defer w.Close()
	d.Stats.Executions++
	for i, a := range hist {
		found := false
		for _, e := range w.Enabled() {
			if e == a {
				found = true
			}
		}
		if !found {
			d.Stats.HarnessErrs = append(d.Stats.HarnessErrs, fmt.Sprintf("replay step %d: %q is not enabled (enabled: %v)", i, a, w.Enabled()))
			return
		}
		if err := w.Do(a); err != nil {
			d.Stats.HarnessErrs = append(d.Stats.HarnessErrs, err.Error())
			return
		}
		d.Stats.Transitions++
		fmt.Printf("  step %d: %s\n", i+1, a)
		for _, v := range w.Check(hist[:i+1]) {
			v.Scenario, v.History = d.Scenario, append([]string{}, hist[:i+1]...)
			d.Stats.Violations = append(d.Stats.Violations, v)
		}
	}
	// the terminal oracle belongs to complete executions only (a recorded history may be the prefix at which a
	// step oracle fired)
	if acts := w.Enabled(); len(acts) == 0 && d.Settle != nil {
		d.Settle()
	}
	if d.Terminal != nil && len(w.Enabled()) == 0 {
		for _, v := range d.Terminal(w, hist) {
			v.Scenario, v.History = d.Scenario, append([]string{}, hist...)
			d.Stats.Violations = append(d.Stats.Violations, v)
		}
	}
}

func (d *ScheduleDFS) Run() {
	if ReplayOnly != nil {
		d.replay(ReplayOnly)
		return
	}
	d.explore(nil, 0)
	if d.expired {
		d.Stats.CapsHit = append(d.Stats.CapsHit, "time budget reached in "+d.Scenario)
	}
}

func (d *ScheduleDFS) explore(prefix []int, cost int) {
	if d.Expired != nil && d.Expired() {
		d.expired = true
		return
	}
	var r *schedRun
	var err error
	for attempt := 0; ; attempt++ {
		r, err = d.run(prefix)
		if err == nil {
			break
		}
		if attempt >= 2 {
			d.Stats.HarnessErrs = append(d.Stats.HarnessErrs, d.Scenario+": "+err.Error())
			return
		}
	}
	d.confirmNew(prefix, r)
	if cost > 0 {
		d.Stats.NontrivialCase(d.Scenario + "|" + HistKey(r.hist))
	}
	if len(d.Stats.Samples) < 4 {
		d.Stats.Sample(fmt.Sprintf("%s (deviations=%d): %s", d.Scenario, cost, HistKey(r.hist)))
	}
	if d.Bound >= 0 && cost >= d.Bound {
		return
	}
	for i := len(prefix); i < len(r.choices); i++ {
		for alt := 1; alt < r.fanout[i]; alt++ {
			if len(prefix) == 0 && d.Shards > 1 {
				idx := d.rootAlts
				d.rootAlts++
				if idx%d.Shards != d.Shard {
					continue
				}
			}
			np := append(append([]int{}, r.choices[:i]...), alt)
			d.explore(np, cost+1)
		}
	}
}
