package scen

import (
	"berty.tech/go-orbit-db/utils"
	"encoding/json"
	"fmt"
	"path"
	"sort"
	"strings"

	ipfslog "berty.tech/go-ipfs-log"
	"berty.tech/go-ipfs-log/entry"
	logio "berty.tech/go-ipfs-log/io"
	orbitdb "berty.tech/go-orbit-db"
	"berty.tech/go-orbit-db/accesscontroller"
	"berty.tech/go-orbit-db/accesscontroller/simple"
	"berty.tech/go-orbit-db/address"
	"berty.tech/go-orbit-db/iface"
	"berty.tech/go-orbit-db/stores/eventlogstore"
	cid "github.com/ipfs/go-cid"
	"github.com/libp2p/go-libp2p/p2p/host/eventbus"
	"verifmc/sim"
)

// Adv is the adversarial world: honest writer A, optional second authorised writer B (who may collude),
// attacker N (not in the write list), and victim replica V which replicates over pubsub and direct channel.
type Adv struct {
	Kind       string
	Net        *sim.Net
	A, B, N, V *sim.Instance
	SA, SB, SV iface.Store
	SA2        iface.Store // another database written by A (for foreign-database entries)
	Addr       string
	Names      map[string]string // cid -> readable name
	WriteList  []string
	PubAddr    string // wildcard database opened first when options are reused
	conc       uint
	counter    int
}

// AdvOptions configures the write list and the controller.
type AdvOptions struct {
	Kind             string   // store type
	Writers          []string // subset of {"A","B"}, or {"*"}, or {} (creator default)
	Controller       string   // "ipfs" (default), "simple", "orbitdb"
	VictimReplicates bool
	SimpleDirect     bool // replicas built by the store constructor with an explicit simple access controller
	// ReusedOptions: the victim (and the non-writer's local replica) open a wildcard database of A first and
	// then the attacked database with the SAME options value, as an application holding one options struct does
	ReusedOptions bool
	// RecordedEmpty: the database's manifest records an EMPTY write list (built block by block, as another
	// implementation would record it; this library's constructor replaces an empty list by the creator's id):
	// nobody may write, every replica opens the database by address
	RecordedEmpty bool
	// Concurrency (with SimpleDirect): replication concurrency of the replicas built by the store constructor
	Concurrency uint
}

func NewAdv(o AdvOptions) (*Adv, error) {
	if o.Kind == "" {
		o.Kind = "eventlog"
	}
	w := &Adv{Kind: o.Kind, Net: sim.NewNet(), Names: map[string]string{}, conc: o.Concurrency}
	w.Net.PubSub.AutoDeliver = false
	start := func(name string) (*sim.Instance, error) { return w.Net.AddPeer(name).Start(nil) }
	var err error
	if w.A, err = start("A"); err != nil {
		return nil, err
	}
	if w.B, err = start("B"); err != nil {
		return nil, err
	}
	if w.N, err = start("N"); err != nil {
		return nil, err
	}
	if w.V, err = start("V"); err != nil {
		return nil, err
	}
	var opts *orbitdb.CreateDBOptions
	ids := map[string]string{"A": w.A.DB.Identity().ID, "B": w.B.DB.Identity().ID, "N": w.N.DB.Identity().ID, "*": "*"}
	mk := func() *orbitdb.CreateDBOptions {
		opts = &orbitdb.CreateDBOptions{Replicate: boolp(false)}
		if o.Writers != nil || o.Controller != "" {
			ac := accesscontroller.NewEmptyManifestParams()
			if o.Controller != "" {
				ac.SetType(o.Controller)
			}
			var l []string
			for _, x := range o.Writers {
				l = append(l, ids[x])
			}
			if o.Writers != nil {
				ac.SetAccess("write", l)
			}
			opts.AccessController = ac
		}
		return opts
	}
	for _, x := range o.Writers {
		w.WriteList = append(w.WriteList, ids[x])
	}
	if o.Writers == nil {
		w.WriteList = []string{ids["A"]}
	}
	if o.RecordedEmpty {
		api := w.A.Peer.API()
		listCID, err := logio.WriteCBOR(bg, api, map[string]interface{}{"write": "[]"}, nil)
		if err != nil {
			return nil, err
		}
		acCID, err := accesscontroller.CreateManifest(bg, api, "ipfs", accesscontroller.NewManifestParams(listCID, false, "ipfs"))
		if err != nil {
			return nil, err
		}
		manifestCID, err := utils.CreateDBManifest(bg, api, "db", o.Kind, acCID.String())
		if err != nil {
			return nil, err
		}
		w.WriteList = nil
		if w.SA, err = w.A.DB.Open(bg, path.Join("/orbitdb", manifestCID.String(), "db"), &orbitdb.CreateDBOptions{Replicate: boolp(false)}); err != nil {
			return nil, fmt.Errorf("open database with recorded empty list: %w", err)
		}
	} else if w.SA, err = w.A.DB.Create(bg, "db", o.Kind, mk()); err != nil {
		return nil, fmt.Errorf("create: %w", err)
	}
	w.Addr = w.SA.Address().String()
	if w.SA2, err = w.A.DB.Create(bg, "other", o.Kind, mk()); err != nil {
		return nil, fmt.Errorf("create other: %w", err)
	}
	if w.SB, err = w.B.DB.Open(bg, w.Addr, &orbitdb.CreateDBOptions{Replicate: boolp(false)}); err != nil {
		return nil, fmt.Errorf("open B: %w", err)
	}
	vopts := &orbitdb.CreateDBOptions{Replicate: boolp(true)}
	if o.ReusedOptions {
		pac := accesscontroller.NewEmptyManifestParams()
		pac.SetAccess("write", []string{"*"})
		pub, err := w.A.DB.Create(bg, "pub", o.Kind, &orbitdb.CreateDBOptions{Replicate: boolp(false), AccessController: pac})
		if err != nil {
			return nil, fmt.Errorf("create pub: %w", err)
		}
		w.PubAddr = pub.Address().String()
		if _, err := w.V.DB.Open(bg, w.PubAddr, vopts); err != nil {
			return nil, fmt.Errorf("open pub on V: %w", err)
		}
	}
	if w.SV, err = w.V.DB.Open(bg, w.Addr, vopts); err != nil {
		return nil, fmt.Errorf("open V: %w", err)
	}
	if o.SimpleDirect {
		// the database keeps its address, but every replica is rebuilt through the store constructor with an
		// explicit simple access controller carrying the write list (the only way to reach that controller:
		// it cannot be resolved from a manifest)
		for _, x := range []struct {
			inst *sim.Instance
			st   *iface.Store
		}{{w.A, &w.SA}, {w.B, &w.SB}, {w.V, &w.SV}} {
			_ = (*x.st).Close()
			ns, err := w.SimpleStore(x.inst)
			if err != nil {
				return nil, err
			}
			*x.st = ns
		}
	}
	return w, sim.Quiesce()
}

// SimpleStore builds an event-log store for the database on inst with a simple access controller.
func (w *Adv) SimpleStore(inst *sim.Instance) (iface.Store, error) {
	params := accesscontroller.NewSimpleManifestParams("simple", map[string][]string{"write": w.WriteList})
	acs, err := simple.NewSimpleAccessController(bg, nil, params)
	if err != nil {
		return nil, err
	}
	addr, err := address.Parse(w.Addr)
	if err != nil {
		return nil, err
	}
	ds, err := inst.Cache.Load(sim.Directory, addr)
	if err != nil {
		return nil, err
	}
	return eventlogstore.NewOrbitDBEventLogStore(inst.Peer.API(), inst.DB.Identity(), addr, &iface.NewStoreOptions{
		EventBus: eventbus.NewBus(), AccessController: acs, Cache: ds, CacheDestroy: func() error { return nil },
		Replicate: boolp(false), IO: logio.CBOR(), ReplicationConcurrency: w.conc,
	})
}

func (w *Adv) Close() {
	for _, i := range []*sim.Instance{w.A, w.B, w.N, w.V} {
		if i != nil {
			_ = i.Close()
		}
	}
	_ = sim.Quiesce()
}

// Write makes an honest write on store s (of A or B) and names the new entry.
func (w *Adv) Write(s iface.Store, name string) (*entry.Entry, error) {
	w.counter++
	var err error
	switch st := s.(type) {
	case iface.EventLogStore:
		_, err = st.Add(bg, []byte(name))
	case iface.KeyValueStore:
		_, err = st.Put(bg, "k", []byte(name))
	case iface.DocumentStore:
		_, err = st.Put(bg, map[string]interface{}{"_id": "k", "v": name})
	}
	if err != nil {
		return nil, err
	}
	hs := s.OpLog().Heads().Slice()
	e := hs[0].(*entry.Entry)
	w.Names[e.GetHash().String()] = name
	return e, nil
}

func (w *Adv) Name(c cid.Cid) string {
	if n, ok := w.Names[c.String()]; ok {
		return n
	}
	return c.String()
}

// Payload builds the wire message for heads.
func (w *Adv) Payload(addr string, heads []*entry.Entry) []byte {
	b, err := json.Marshal(&iface.MessageExchangeHeads{Address: addr, Heads: heads})
	if err != nil {
		panic(err)
	}
	return b
}

// wire makes independent copies of the heads, as they would arrive from the network.
func wire(heads []*entry.Entry) []*entry.Entry {
	b, err := json.Marshal(heads)
	if err != nil {
		panic(err)
	}
	var out []*entry.Entry
	if err := json.Unmarshal(b, &out); err != nil {
		panic(err)
	}
	return out
}

// Deliver hands the heads to the victim by the given route, sent by `from`.
func (w *Adv) Deliver(route string, from *sim.Instance, heads []*entry.Entry) error {
	switch route {
	case "sync":
		var hs []ipfslog.Entry
		for _, h := range wire(heads) {
			hs = append(hs, h)
		}
		_ = w.SV.Sync(bg, hs) // the outcome of Sync itself is not judged
	case "topic":
		w.Net.PubSub.InjectTopic(from.Peer.ID, w.V.Peer.ID, w.Addr, w.Payload(w.Addr, heads))
	case "direct":
		w.Net.PubSub.InjectDirect(from.Peer.ID, w.V.Peer.ID, w.Payload(w.Addr, heads))
	default:
		return fmt.Errorf("unknown route %q", route)
	}
	return nil
}

// victimEntries is everything the victim's log exposes: its entry map, its ordered listing and its heads
// (the dependency's join can adopt heads whose entries it filtered out).
func (w *Adv) victimEntries() map[string]ipfslog.Entry {
	m := map[string]ipfslog.Entry{}
	log := w.SV.OpLog()
	for _, e := range log.GetEntries().Slice() {
		m[e.GetHash().String()] = e
	}
	for _, e := range log.Values().Slice() {
		m[e.GetHash().String()] = e
	}
	for _, e := range log.Heads().Slice() {
		m[e.GetHash().String()] = e
	}
	return m
}

// VictimHas reports whether the victim's log exposes the entry in any way.
func (w *Adv) VictimHas(c cid.Cid) bool {
	_, ok := w.victimEntries()[c.String()]
	return ok
}

// VictimEntry returns the victim's copy of the entry with that address.
func (w *Adv) VictimEntry(c cid.Cid) (ipfslog.Entry, bool) {
	e, ok := w.victimEntries()[c.String()]
	return e, ok
}

// VictimSet lists the victim's entries by name.
func (w *Adv) VictimSet() []string {
	var out []string
	for _, e := range w.victimEntries() {
		out = append(out, w.Name(e.GetHash()))
	}
	sort.Strings(out)
	return out
}

// VictimView renders the victim's visible state.
func (w *Adv) VictimView() string {
	switch s := w.SV.(type) {
	case iface.EventLogStore:
		ops, _ := s.List(bg, &iface.StreamOptions{Amount: intp(-1)})
		var l []string
		for _, o := range ops {
			l = append(l, string(o.GetValue()))
		}
		return strings.Join(l, ",")
	case iface.KeyValueStore:
		return kvString(s.All())
	case iface.DocumentStore:
		ds, _ := s.Query(bg, func(interface{}) (bool, error) { return true, nil })
		return docsMultiset(ds)
	}
	return ""
}
