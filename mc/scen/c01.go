package scen

import (
	"bytes"
	"encoding/json"
	"fmt"
	"sort"
	"strings"

	ipfslog "berty.tech/go-ipfs-log"
	"berty.tech/go-orbit-db/iface"
	"verifmc/explore"
)

// Observables renders everything C01 compares between replicas holding the same entries.
func (w *Writers) Observables(i int) string {
	s := w.Stores[i]
	var b strings.Builder
	vals := s.OpLog().Values().Slice()
	fmt.Fprintf(&b, "values=%v heads=%v ", w.EIDs(vals), w.EIDs(s.OpLog().Heads().Slice()))
	switch w.Kind {
	case "keyvalue":
		fmt.Fprintf(&b, "all=%s", kvString(s.(iface.KeyValueStore).All()))
	case "eventlog":
		ops, err := s.(iface.EventLogStore).List(bg, &iface.StreamOptions{Amount: intp(-1)})
		if err != nil {
			fmt.Fprintf(&b, "list-error=%v", err)
		}
		var l []string
		for _, o := range ops {
			l = append(l, w.EID(o.GetEntry())+"="+string(o.GetValue()))
		}
		fmt.Fprintf(&b, "list=%v", l)
	case "docstore":
		ds, err := s.(iface.DocumentStore).Query(bg, func(interface{}) (bool, error) { return true, nil })
		if err != nil {
			fmt.Fprintf(&b, "query-error=%v", err)
		}
		fmt.Fprintf(&b, "docs=%s", docsMultiset(ds))
	}
	return b.String()
}

// RefOrder sorts entries by (Lamport time, writer id), the total order the property names.
func RefOrder(es []ipfslog.Entry) []ipfslog.Entry {
	out := append([]ipfslog.Entry{}, es...)
	sort.SliceStable(out, func(i, j int) bool {
		a, b := out[i].GetClock(), out[j].GetClock()
		if a.GetTime() != b.GetTime() {
			return a.GetTime() < b.GetTime()
		}
		return bytes.Compare(a.GetID(), b.GetID()) < 0
	})
	return out
}

// OracleConvergence: (a) differential — every path (any replica, any route) that reaches entry set S must
// show the observables recorded by the first path that reached S; (b) reference — the ordered list is the
// (time, writer) sort of S, heads are the maximal elements, and the view is the replay of that list.
func OracleConvergence(prop string) func(w *Writers, hist []string) []explore.Violation {
	return func(w *Writers, hist []string) []explore.Violation {
		var out []explore.Violation
		if msg, ok := w.Scratch["reload-changed-set"].(string); ok {
			// loading from disk is one of the delivery routes: in this fault-free world it hands the replica
			// exactly the entries it held
			delete(w.Scratch, "reload-changed-set")
			sig := "load-from-disk-changed-entry-set"
			if strings.Contains(msg, "snapshot") {
				sig = "load-from-own-snapshot-changed-entry-set"
			}
			out = append(out, explore.Violation{Property: prop, Signature: sig, Detail: msg})
		}
		if msg, ok := w.Scratch["batch-not-delivered"].(string); ok {
			delete(w.Scratch, "batch-not-delivered")
			out = append(out, explore.Violation{Property: prop, Signature: "heads-batch-partly-dropped", Detail: msg})
		}
		for i, s := range w.Stores {
			set := w.SetKey(i)
			obs := w.Observables(i)
			if prev, ok := w.Mem.Obs[set]; ok {
				if prev != obs {
					out = append(out, explore.Violation{Property: prop, Signature: "same-entries-different-state:" + w.Kind,
						Detail: fmt.Sprintf("replica %d holds {%s}\n now shows: %s\n first seen (via %s): %s", i, set, obs, w.Mem.Via[set], prev)})
				}
			} else {
				w.Mem.Obs[set] = obs
				w.Mem.Via[set] = explore.HistKey(hist)
			}
			all := s.OpLog().GetEntries().Slice()
			vals := s.OpLog().Values().Slice()
			if len(vals) != len(all) {
				out = append(out, explore.Violation{Property: prop, Signature: "listing-misses-held-entries",
					Detail: fmt.Sprintf("replica %d: %d entries held, %d listed: held={%s} listed=%v", i, len(all), len(vals), set, w.EIDs(vals))})
				continue
			}
			// the whole ancestry of whatever was merged has been fetched: every link of a held entry is held
			// (every block is fetchable in this world, and a batch is only joined once it is complete)
			held := map[string]bool{}
			for _, e := range all {
				held[e.GetHash().String()] = true
			}
			for _, e := range all {
				for _, c := range e.GetNext() {
					if !held[c.String()] {
						out = append(out, explore.Violation{Property: prop, Signature: "log-not-closed-under-ancestry",
							Detail: fmt.Sprintf("replica %d holds %s but not its predecessor %s; held={%s}", i, w.EID(e), short4(c.String()), set)})
					}
				}
			}
			ref := RefOrder(all)
			if strings.Join(hashesOf(ref), ",") != strings.Join(hashesOf(vals), ",") {
				out = append(out, explore.Violation{Property: prop, Signature: "order-differs-from-lamport-sort",
					Detail: fmt.Sprintf("replica %d: listed=%v reference=%v", i, w.EIDs(vals), w.EIDs(ref))})
			}
			// heads = entries no other held entry points to
			pointed := map[string]bool{}
			for _, e := range all {
				for _, c := range e.GetNext() {
					pointed[c.String()] = true
				}
			}
			var wantHeads []string
			for _, e := range all {
				if !pointed[e.GetHash().String()] {
					wantHeads = append(wantHeads, w.EID(e))
				}
			}
			gotHeads := w.EIDs(s.OpLog().Heads().Slice())
			sort.Strings(wantHeads)
			sort.Strings(gotHeads)
			if strings.Join(wantHeads, ",") != strings.Join(gotHeads, ",") {
				out = append(out, explore.Violation{Property: prop, Signature: "heads-not-maximal-elements",
					Detail: fmt.Sprintf("replica %d: heads=%v expected=%v set={%s}", i, gotHeads, wantHeads, set)})
			}
			switch w.Kind {
			case "keyvalue":
				r, _ := RefKV(ref)
				if got := s.(iface.KeyValueStore).All(); !sameKV(r, got) {
					out = append(out, explore.Violation{Property: prop, Signature: "view-differs-from-reference:keyvalue",
						Detail: fmt.Sprintf("replica %d: All()=%s reference=%s", i, kvString(got), kvString(r))})
				}
			case "docstore":
				r, _ := RefDocs(ref)
				ds, _ := s.(iface.DocumentStore).Query(bg, func(interface{}) (bool, error) { return true, nil })
				if g, want := docsMultiset(ds), refMultiset(r, func(string, []byte) bool { return true }); g != want {
					out = append(out, explore.Violation{Property: prop, Signature: "view-differs-from-reference:docstore",
						Detail: fmt.Sprintf("replica %d: docs=%s reference=%s", i, g, want)})
				}
			}
		}
		return out
	}
}

// C01Arg extends the search argument with route options.
type C01Arg struct {
	DFSArg
	Observer   bool     `json:"observer"`
	Routes     []string `json:"routes"`
	Antichains bool     `json:"antichains"`
	Reload     bool     `json:"reload"`
	Snapshot   bool     `json:"snapshot"`
	SnapLive   bool     `json:"snaplive"`   // save a snapshot and keep running; load it on the running store later
	FaultWrite bool     `json:"faultwrite"` // local writes whose head-list write fails; Loads that fail at once
	Gated      bool     `json:"gated"`
	Partial    bool     `json:"partial"` // the observer may restart and load only its newest entry
}

func (a C01Arg) Name() string {
	n := a.DFSArg.Name()
	if a.Observer {
		n += "/obs:" + strings.Join(a.Routes, "+")
	}
	if a.Antichains {
		n += "/antichains"
	}
	if a.Reload {
		n += "/reload"
	}
	if a.Snapshot {
		n += "/snapshot"
	}
	if a.SnapLive {
		n += "/snapshot-on-running-store"
	}
	if a.FaultWrite {
		n += "/faulty-writes"
	}
	if a.Partial {
		n += "/partial-reload"
	}
	if a.Gated {
		n += "/gated"
	}
	return n
}

func c01Units(base C01Arg, shards int) []explore.Unit {
	var out []explore.Unit
	for s := 0; s < shards; s++ {
		a := base
		a.Shards, a.Shard = shards, s
		b, _ := json.Marshal(a)
		out = append(out, explore.Unit{Name: a.Name(), Arg: string(b)})
	}
	return out
}

func alphabetFor(kind, alpha string) []WOp {
	switch kind {
	case "keyvalue":
		return KVAlphabet(alpha)
	case "docstore":
		return DocAlphabet(alpha)
	case "eventlog":
		return LogAlphabet(alpha)
	}
	panic("unknown kind " + kind)
}

func runC01Unit(c *explore.Ctx, prop string, oracle func(w *Writers, a C01Arg)) {
	var a C01Arg
	if err := json.Unmarshal([]byte(c.Spec.Unit.Arg), &a); err != nil {
		c.Stats.HarnessErrs = append(c.Stats.HarnessErrs, err.Error())
		return
	}
	mem := NewMemory()
	sd := a.SD
	if sd == 0 {
		sd = 2
	}
	if sd > a.Depth {
		sd = a.Depth
	}
	space := a.Name()
	if i := strings.Index(space, "/shard"); i >= 0 {
		j := strings.Index(space[i+1:], "/")
		if j < 0 {
			space = space[:i]
		} else {
			space = space[:i] + space[i+1+j:]
		}
	}
	d := &explore.DFS{
		Scenario: a.Name(), Space: space,
		New: func() (explore.World, error) {
			w, err := NewWriters(a.Kind, a.Writers, alphabetFor(a.Kind, a.Alpha))
			if err != nil {
				return nil, err
			}
			w.Mem = mem
			w.Dup = a.Dup
			w.Routes, w.Antichains, w.Reload, w.Snapshot, w.Gated = a.Routes, a.Antichains, a.Reload, a.Snapshot, a.Gated
			w.SnapshotLive = a.SnapLive
			w.FaultyWrite = a.FaultWrite
			w.AbortedLoad = a.FaultWrite
			w.PartialReload = a.Partial
			if a.Observer {
				if err := w.AddObserver(); err != nil {
					return nil, err
				}
			}
			oracle(w, a)
			return w, nil
		},
		MaxDepth: a.Depth, ShardDepth: sd, Shards: a.Shards, Shard: a.Shard,
		Stats: c.Stats, Journal: c.JournalHist, Poison: c.PoisonSet(), Nontrivial: nontrivialMerged, Expired: c.Expired,
	}
	d.Run()
	c.Stats.Counters["entry_sets_compared"] += len(mem.Obs)
	for i := range c.Stats.Violations {
		if c.Stats.Violations[i].Property == "" {
			c.Stats.Violations[i].Property = prop
		}
	}
}

func init() {
	explore.Register(&explore.CheckDef{
		ID: "C01", Level: "model_checking",
		Rule: "explicit-state DFS over histories (write by any writer, merge(i<-j), re-announcement) for the three store types; an extra observer replica receives heads of any writer at any time by manual Sync, topic message or direct-channel payload, plus announcements of arbitrary single entries and concurrent pairs in both list orders; replicas are restarted and reloaded from the cache, and saved/reloaded through snapshots. Gated units: replica 0 merges the other writers' heads with every block fetch of its replicator parked; all release orders with a bounded number of deviations, with one local write and one duplicate announcement allowed while fetches are in flight. Oracle in every state, every replica: a batch of heads handed over by Sync without error is held in full once the world is quiet and no fetch is parked; differential (same entry set => same ordered list, heads and view as the first path that reached that set) and reference (list == (time,writer) sort, heads == maximal elements, view == replay). Non-trivial = distinct states in which some replica holds entries of two writers.",
		Units: func(tier string) []explore.Unit {
			var u []explore.Unit
			kinds := []struct{ kind, alpha string }{{"eventlog", "one"}, {"keyvalue", "twokeys"}, {"docstore", "twokeys"}, {"keyvalue", "tiny"}}
			for _, k := range kinds {
				d1, d2, d3 := 4, 3, 3
				if tier == "thorough" {
					d1, d2, d3 = 5, 4, 4
				}
				if k.kind == "eventlog" {
					d1++
					d2++
					d3++
				}
				// histories and merges between writers (2 and 3 writers)
				u = append(u, c01Units(C01Arg{DFSArg: DFSArg{Kind: k.kind, Writers: 2, Depth: d1, Alpha: k.alpha, Dup: true}}, 16)...)
				u = append(u, c01Units(C01Arg{DFSArg: DFSArg{Kind: k.kind, Writers: 3, Depth: d1 - 1, Alpha: k.alpha}}, 16)...)
				// observer with every route and arbitrary antichains
				u = append(u, c01Units(C01Arg{DFSArg: DFSArg{Kind: k.kind, Writers: 2, Depth: d2, Alpha: k.alpha, Dup: true}, Observer: true, Routes: []string{"sync", "topic", "direct"}, Antichains: true}, 16)...)
				// reload from disk and snapshot round trips
				u = append(u, c01Units(C01Arg{DFSArg: DFSArg{Kind: k.kind, Writers: 2, Depth: d3, Alpha: k.alpha}, Observer: true, Routes: []string{"direct"}, Reload: true, Snapshot: true}, 16)...)
			}
			// document batches whose members are superseded one by one: a replica that sees batch and update together
			// (late joiner, reload) against one that saw them one after the other
			u = append(u, c01Units(C01Arg{DFSArg: DFSArg{Kind: "docstore", Writers: 2, Depth: 4, Alpha: "batch"}, Observer: true, Routes: []string{"sync"}, Reload: true}, 8)...)
			// a snapshot saved earlier loaded on the running store, which holds more by then (the snapshot route
			// re-delivering entries the replica already has)
			for _, k := range []struct{ kind, alpha string }{{"eventlog", "one"}, {"keyvalue", "twokeys"}} {
				sl := 4
				if tier == "thorough" {
					sl = 5
				}
				u = append(u, c01Units(C01Arg{DFSArg: DFSArg{Kind: k.kind, Writers: 2, Depth: sl, Alpha: k.alpha}, SnapLive: true}, 8)...)
			}
			// two concurrent remote branches merged in separate batches, then reload from disk
			rd := 5
			if tier == "thorough" {
				rd = 6
			}
			u = append(u, c01Units(C01Arg{DFSArg: DFSArg{Kind: "eventlog", Writers: 2, Depth: rd, Alpha: "one", SD: 3}, Observer: true, Routes: []string{"sync"}, Reload: true}, 32)...)
			// fetch completion orders inside one merge, with duplication and a local write in flight
			gb := 2
			if tier == "thorough" {
				gb = 4
			}
			for _, kind := range []string{"eventlog", "keyvalue"} {
				for _, sh := range []string{"own0-chain3", "own2-chain3", "own2-fork", "own1-chain2x2"} {
					u = append(u, gmUnits(GMArg{Kind: kind, Shape: sh, Writes: 1, Dups: 1, Bound: gb}, 8, "G")...)
				}
			}
			return u
		},
		Budget: func(tier string) float64 {
			if tier == "thorough" {
				return 1500
			}
			return 400
		},
		RunUnit: func(c *explore.Ctx) {
			if strings.HasPrefix(c.Spec.Unit.Arg, "G") {
				runGatedMerge(c, c.Spec.Unit.Arg[1:], "C01", func(w *Writers) { w.Oracles = append(w.Oracles, OracleConvergence("C01")) })
				return
			}
			runC01Unit(c, "C01", func(w *Writers, a C01Arg) { w.Oracles = append(w.Oracles, OracleConvergence("C01")) })
		},
		Assumptions: []string{
			"environment is the deterministic simulation in /verif/mc/sim; announcements are wire-format (JSON) copies of real heads",
			"no two distinct entries carry the same (Lamport time, writer) pair (each identity writes through one live, loaded store)",
			"fetch completion order inside one announcement is left to the Go scheduler in the ungated units and enumerated in the gated-merge units",
		},
	})
}
