package scen

import (
	"crypto/sha256"
	"encoding/json"
	"fmt"
	"sort"
	"strings"

	orbitdb "berty.tech/go-orbit-db"
	"berty.tech/go-orbit-db/stores/replicator"
	datastore "github.com/ipfs/go-datastore"
	"github.com/libp2p/go-libp2p/core/peer"
	"verifmc/explore"
	"verifmc/sim"
)

// NetWorld: 2..4 replicas, all writers, replicating over the simulated pubsub and direct channel; the
// explorer writes, delivers/drops/duplicates in-flight messages, cuts and heals links, restarts peers.
type NetWorld struct {
	*Writers
	budget struct{ writes, faults, cuts, restarts int }
	wcount int
	// down[i]: replica i's store is closed while its instance (and direct channel) keeps running
	down map[int]bool
}

type C02Arg struct {
	DFSArg
	Writes, Faults, Cuts, Restarts int
	AllOrders                      bool // final phase explores every delivery order (small configurations)
}

func (a C02Arg) Name() string {
	return fmt.Sprintf("net/%s/r%d/d%d/w%d-f%d-c%d-r%d/shard%d.%d", a.Kind, a.Writers, a.Depth, a.Writes, a.Faults, a.Cuts, a.Restarts, a.Shard, a.Shards)
}

func NewNetWorld(a C02Arg) (*NetWorld, error) {
	ops := []WOp{logAdd("x")}
	if a.Kind == "keyvalue" {
		ops = []WOp{kvPut("a", "1")}
	}
	w, err := NewWritersOpt(a.Kind, a.Writers, ops, true)
	if err != nil {
		return nil, err
	}
	// drain the initial join/exchange traffic: empty databases exchange empty head lists
	nw := &NetWorld{Writers: w}
	nw.budget.writes, nw.budget.faults, nw.budget.cuts, nw.budget.restarts = a.Writes, a.Faults, a.Cuts, a.Restarts
	if err := nw.deliverAll(); err != nil {
		return nil, err
	}
	return nw, nil
}

// deliverAll delivers in-flight messages in canonical order until none is left.
func (w *NetWorld) deliverAll() error {
	for round := 0; round < 200; round++ {
		ms := w.Net.PubSub.Inflight()
		if len(ms) == 0 {
			return nil
		}
		w.Net.PubSub.Deliver(ms[0])
		if err := sim.Quiesce(); err != nil {
			return err
		}
	}
	return fmt.Errorf("message traffic does not settle")
}

func (w *NetWorld) msgLabels() []string {
	var out []string
	for _, m := range w.Net.PubSub.Inflight() {
		out = append(out, m.Label(w.Net))
	}
	return out
}

func (w *NetWorld) pairs() [][2]int {
	var out [][2]int
	for i := 0; i < len(w.Inst); i++ {
		for j := i + 1; j < len(w.Inst); j++ {
			out = append(out, [2]int{i, j})
		}
	}
	return out
}

func (w *NetWorld) pid(i int) peer.ID { return w.Inst[i].Peer.ID }

func (w *NetWorld) Enabled() []string {
	var out []string
	seen := map[string]bool{}
	labels := w.msgLabels()
	for _, l := range labels {
		if !seen[l] {
			seen[l] = true
			out = append(out, "deliver:"+l)
		}
	}
	if w.budget.writes > 0 {
		for i := range w.Stores {
			if !w.down[i] {
				out = append(out, fmt.Sprintf("write:%d", i))
			}
		}
	}
	if w.budget.faults > 0 {
		for l := range seen {
			_ = l
		}
		var ls []string
		for l := range seen {
			ls = append(ls, l)
		}
		sort.Strings(ls)
		for _, l := range ls {
			out = append(out, "drop:"+l)
		}
		for _, l := range ls {
			out = append(out, "dup:"+l)
		}
	}
	for _, p := range w.pairs() {
		if w.Net.Linked(w.pid(p[0]), w.pid(p[1])) {
			if w.budget.cuts > 0 {
				out = append(out, fmt.Sprintf("cut:%d%d", p[0], p[1]))
			}
		} else {
			out = append(out, fmt.Sprintf("heal:%d%d", p[0], p[1]))
		}
	}
	if w.budget.restarts > 0 {
		for i := range w.Stores {
			if !w.down[i] {
				out = append(out, fmt.Sprintf("restart:%d", i))
				// the store alone is closed and opened again later: messages for it may reach the running instance meanwhile
				out = append(out, fmt.Sprintf("closestore:%d", i))
			}
		}
	}
	for i := range w.Stores {
		if w.down[i] {
			out = append(out, fmt.Sprintf("openstore:%d", i))
		}
	}
	return out
}

func (w *NetWorld) findMsg(label string) *sim.Msg {
	for _, m := range w.Net.PubSub.Inflight() {
		if m.Label(w.Net) == label {
			return m
		}
	}
	return nil
}

func (w *NetWorld) Do(a string) error {
	w.LastAction = a
	k, arg, _ := strings.Cut(a, ":")
	switch k {
	case "deliver", "drop", "dup":
		m := w.findMsg(arg)
		if m == nil {
			return fmt.Errorf("no in-flight message %q", arg)
		}
		switch k {
		case "deliver":
			w.Net.PubSub.Deliver(m)
		case "drop":
			w.budget.faults--
			w.Net.PubSub.Drop(m)
		case "dup":
			w.budget.faults--
			w.Net.PubSub.Dup(m)
		}
	case "write":
		i := int(arg[0] - '0')
		w.budget.writes--
		w.wcount++
		if err := w.Ops[0].Do(w.Stores[i]); err != nil {
			w.Report(explore.Violation{Signature: "write-failed", Detail: err.Error()})
		}
	case "cut":
		w.budget.cuts--
		w.Net.PubSub.Cut(w.pid(int(arg[0]-'0')), w.pid(int(arg[1]-'0')))
	case "heal":
		w.Net.PubSub.Heal(w.pid(int(arg[0]-'0')), w.pid(int(arg[1]-'0')))
	case "restart":
		w.budget.restarts--
		if err := w.Restart(int(arg[0]-'0'), false); err != nil {
			return err
		}
	case "closestore":
		w.budget.restarts--
		i := int(arg[0] - '0')
		if w.down == nil {
			w.down = map[int]bool{}
		}
		w.down[i] = true
		_ = w.Stores[i].Close()
	case "openstore":
		if err := w.openStore(int(arg[0] - '0')); err != nil {
			return err
		}
	default:
		return fmt.Errorf("unknown action %q", a)
	}
	return sim.Quiesce()
}

func (w *NetWorld) Key() string {
	var b strings.Builder
	b.WriteString(w.Writers.Key())
	fmt.Fprintf(&b, " # msgs=%v", w.msgLabels())
	for _, p := range w.pairs() {
		if !w.Net.Linked(w.pid(p[0]), w.pid(p[1])) {
			fmt.Fprintf(&b, " cut%d%d", p[0], p[1])
		}
	}
	fmt.Fprintf(&b, " budget=%v", w.budget)
	for i, s := range w.Stores {
		if w.down[i] {
			fmt.Fprintf(&b, " %d:store-closed", i)
			continue
		}
		for _, k := range []string{"_localHeads", "_remoteHeads"} {
			raw, _ := s.Cache().Get(bg, datastore.NewKey(k))
			h := sha256.Sum256(raw)
			fmt.Fprintf(&b, " %d%s=%x", i, k, h[:4])
		}
		if vs, ok := s.Replicator().(replicator.VerifStater); ok {
			st := vs.VerifState()
			fmt.Fprintf(&b, " t%d=%d/%d/%d", i, len(st.Added), len(st.Fetching), len(st.Fetched))
		}
	}
	return b.String()
}

// openStore opens replica i's database again on its running instance and loads it from the cache.
func (w *NetWorld) openStore(i int) error {
	s, err := w.Inst[i].DB.Open(bg, w.Addr, &orbitdb.CreateDBOptions{Replicate: boolp(true)})
	if err != nil {
		return err
	}
	w.Stores[i] = s
	delete(w.down, i)
	if err := s.Load(bg, -1); err != nil {
		w.Report(explore.Violation{Signature: "load-error", Detail: fmt.Sprintf("replica %d after closing and opening its store: %v", i, err)})
	}
	return sim.Quiesce()
}

// FinalPhase: heal every link, deliver everything with no further fault, then every replica must hold
// every acknowledged write and all must show the same state.
func (w *NetWorld) FinalPhase() []explore.Violation {
	for i := range w.Stores {
		if w.down[i] {
			if err := w.openStore(i); err != nil {
				return []explore.Violation{{Signature: "final-phase-reopen-failed", Detail: err.Error()}}
			}
		}
	}
	// "peers reconnect": every pair goes through a (re)connection, so that each side observes the other
	// joining the topic, as the property's final phase states
	for _, p := range w.pairs() {
		w.Net.PubSub.Cut(w.pid(p[0]), w.pid(p[1]))
	}
	if err := sim.Quiesce(); err != nil {
		return []explore.Violation{{Signature: "final-phase-hang", Detail: err.Error()}}
	}
	for _, p := range w.pairs() {
		w.Net.PubSub.Heal(w.pid(p[0]), w.pid(p[1]))
	}
	if err := sim.Quiesce(); err != nil {
		return []explore.Violation{{Signature: "final-phase-hang", Detail: err.Error()}}
	}
	if err := w.deliverAll(); err != nil {
		return []explore.Violation{{Signature: "final-phase-traffic-never-settles", Detail: err.Error()}}
	}
	all := map[string]bool{}
	for i := range w.Stores {
		for _, e := range w.Stores[i].OpLog().GetEntries().Slice() {
			all[w.EID(e)] = true
		}
	}
	var out []explore.Violation
	if len(all) != w.wcount {
		out = append(out, explore.Violation{Signature: "acknowledged-write-held-by-nobody",
			Detail: fmt.Sprintf("%d writes acknowledged, union of all replicas holds %d entries", w.wcount, len(all))})
	}
	obs := ""
	for i := range w.Stores {
		have := map[string]bool{}
		for _, e := range w.Stores[i].OpLog().GetEntries().Slice() {
			have[w.EID(e)] = true
		}
		var missing []string
		for id := range all {
			if !have[id] {
				missing = append(missing, id)
			}
		}
		sort.Strings(missing)
		if len(missing) > 0 {
			st := ""
			if vs, ok := w.Stores[i].Replicator().(replicator.VerifStater); ok {
				s := vs.VerifState()
				st = fmt.Sprintf(" replicator: added=%d fetching=%d fetched=%d queue=%d", len(s.Added), len(s.Fetching), len(s.Fetched), s.QueueLen)
			}
			out = append(out, explore.Violation{Signature: "replica-did-not-converge",
				Detail: fmt.Sprintf("after healing all links and delivering everything replica %d lacks %v (holds {%s}).%s", i, missing, w.SetKey(i), st)})
			continue
		}
		o := w.Observables(i)
		if obs == "" {
			obs = o
		} else if o != obs {
			out = append(out, explore.Violation{Signature: "converged-replicas-differ", Detail: fmt.Sprintf("replica %d: %s vs %s", i, o, obs)})
		}
	}
	return out
}

func init() {
	explore.Register(&explore.CheckDef{
		ID: "C02", Level: "model_checking",
		Rule: "explicit-state DFS over a network world of 2-3 replicating replicas (all writers): write(i), deliver/drop/duplicate any in-flight topic or direct-channel message (choosing which to deliver is reordering), cut/heal any link (both sides observe leave/join and exchange cached heads), restart(i) with Load from the cache; budgets for writes, message faults, cuts and restarts in the evidence. From every explored state a final phase is run on a fresh replay: heal all links, deliver everything in canonical order with no further fault, then every replica must hold every acknowledged write and all replicas must show identical state. Non-trivial = distinct states in which some replica holds entries of two writers.",
		Units: func(tier string) []explore.Unit {
			mk := func(a C02Arg, shards int) []explore.Unit {
				var out []explore.Unit
				for s := 0; s < shards; s++ {
					x := a
					x.Shards, x.Shard = shards, s
					b, _ := json.Marshal(x)
					out = append(out, explore.Unit{Name: x.Name(), Arg: string(b)})
				}
				return out
			}
			var u []explore.Unit
			if tier == "thorough" {
				u = append(u, mk(C02Arg{DFSArg: DFSArg{Kind: "eventlog", Writers: 2, Depth: 7}, Writes: 3, Faults: 2, Cuts: 2, Restarts: 1}, 64)...)
				u = append(u, mk(C02Arg{DFSArg: DFSArg{Kind: "eventlog", Writers: 3, Depth: 5}, Writes: 3, Faults: 1, Cuts: 2, Restarts: 1}, 64)...)
				u = append(u, mk(C02Arg{DFSArg: DFSArg{Kind: "keyvalue", Writers: 2, Depth: 6}, Writes: 3, Faults: 2, Cuts: 1, Restarts: 1}, 32)...)
				return u
			}
			u = append(u, mk(C02Arg{DFSArg: DFSArg{Kind: "eventlog", Writers: 2, Depth: 5}, Writes: 2, Faults: 1, Cuts: 1, Restarts: 1}, 32)...)
			u = append(u, mk(C02Arg{DFSArg: DFSArg{Kind: "eventlog", Writers: 3, Depth: 4}, Writes: 2, Faults: 1, Cuts: 1, Restarts: 0}, 32)...)
			// three writes reach merge entries (an entry with two predecessors written after a merge), one message fault
			u = append(u, mk(C02Arg{DFSArg: DFSArg{Kind: "eventlog", Writers: 2, Depth: 6}, Writes: 3, Faults: 1, Cuts: 0, Restarts: 0}, 32)...)
			return u
		},
		Budget: func(tier string) float64 {
			if tier == "thorough" {
				return 1700
			}
			return 400
		},
		RunUnit: func(c *explore.Ctx) {
			var a C02Arg
			if err := json.Unmarshal([]byte(c.Spec.Unit.Arg), &a); err != nil {
				c.Stats.HarnessErrs = append(c.Stats.HarnessErrs, err.Error())
				return
			}
			mem := NewMemory()
			newWorld := func() (*NetWorld, error) {
				w, err := NewNetWorld(a)
				if err != nil {
					return nil, err
				}
				w.Mem = mem
				return w, nil
			}
			d := &explore.DFS{
				Scenario: a.Name(), Space: fmt.Sprintf("net/%s/r%d", a.Kind, a.Writers),
				New:      func() (explore.World, error) { return newWorld() },
				MaxDepth: a.Depth, ShardDepth: 2, Shards: a.Shards, Shard: a.Shard,
				Stats: c.Stats, Journal: c.JournalHist, Poison: c.PoisonSet(), Expired: c.Expired,
				Nontrivial: func(hist []string, w explore.World) bool { return nontrivialMerged(hist, w.(*NetWorld).Writers) },
				Final: func(hist []string) []explore.Violation {
					w, err := newWorld()
					if err != nil {
						return nil
					}
					defer w.Close()
					for _, act := range hist {
						if err := w.Do(act); err != nil {
							return nil
						}
					}
					return w.FinalPhase()
				},
			}
			d.Run()
			for i := range c.Stats.Violations {
				if c.Stats.Violations[i].Property == "" {
					c.Stats.Violations[i].Property = "C02"
				}
			}
		},
		Assumptions: []string{
			"environment is the deterministic simulation in /verif/mc/sim: a fetch succeeds iff a currently linked peer holds the block, healing a link makes both sides observe the other joining the topic",
			"the final phase delivers in canonical order (all delivery orders are explored before the final phase, within the depth bound)",
		},
	})
}
