package scen

import (
	"fmt"
	"strings"

	"berty.tech/go-ipfs-log/entry"
	idp "berty.tech/go-ipfs-log/identityprovider"
	"berty.tech/go-orbit-db/iface"
	cid "github.com/ipfs/go-cid"
	datastore "github.com/ipfs/go-datastore"
	"verifmc/explore"
	"verifmc/sim"
)

// forgeAuthor builds an entry for the database signed by the attacker N under the given forging mode.
// authentic reports (by construction, independently of the code under test) whether the entry is really
// signed with the key of an identity in the write list.
func (w *Adv) forgeAuthor(mode, name string, time int, next []cid.Cid) (*entry.Entry, error) {
	n, a := w.N.DB.Identity(), w.A.DB.Identity()
	spec := ForgeSpec{LogID: w.Addr, Payload: addPayload(name), Time: time, Next: next, Signer: n}
	switch mode {
	case "honest-nonwriter":
	case "copied-id": // N's own identity block, but naming the writer's id
		b := CopyIdentity(n)
		b.ID = a.ID
		spec.Block = b
	case "copied-block": // the writer's whole identity block; key field and signature are the attacker's
		spec.Block, spec.ClockID = CopyIdentity(a), a.PublicKey
	case "copied-block-and-key": // writer's identity block and key field; only the signature is the attacker's
		spec.Block, spec.Key, spec.ClockID = CopyIdentity(a), a.PublicKey, a.PublicKey
	case "copied-id-other-type": // writer's id in N's block, and a type for which no identity provider exists
		b := CopyIdentity(n)
		b.ID = a.ID
		b.Type = "other"
		spec.Block = b
	case "nonwriter-other-log": // the non-writer's honestly signed entry, written for ANOTHER database (foreign log id)
		spec.LogID = w.SA2.Address().String()
	case "copied-id-type-case": // as above, but the type is "orbitdb" spelled in another letter case
		b := CopyIdentity(n)
		b.ID = a.ID
		b.Type = "OrbitDB"
		spec.Block = b
	case "resigned-id": // writer's id in N's block, identity signatures recomputed with N's keys
		b := CopyIdentity(n)
		b.ID = a.ID
		_, ks := w.N.Peer.Durable()
		k2, err := ks.GetKey(bg, n.ID)
		if err != nil {
			return nil, err
		}
		k1, err := ks.GetKey(bg, w.N.Peer.ID.String())
		if err != nil {
			return nil, err
		}
		sigID, _ := k2.Sign([]byte(b.ID))
		sigPK, _ := k1.Sign([]byte(fmt.Sprintf("%x", append(append([]byte{}, b.PublicKey...), sigID...))))
		b.Signatures = &idp.IdentitySignature{ID: sigID, PublicKey: sigPK}
		spec.Block = b
	default:
		return nil, fmt.Errorf("unknown forging mode %q", mode)
	}
	e, err := Forge(w.N.Peer.API(), spec)
	if err == nil {
		w.Names[e.Hash.String()] = name
	}
	return e, err
}

var c03Modes = []string{"honest-nonwriter", "copied-id", "copied-block", "copied-block-and-key", "resigned-id", "copied-id-other-type", "copied-id-type-case", "nonwriter-other-log"}

type c03Case struct {
	Writers    []string
	ListName   string
	Controller string
	Mode       string
	Route      string // local, sync, topic, direct, ancestor
	Position   string // alone, after-honest, before-honest
	Reused     bool   // the attacked replica is opened with an options value already used for a wildcard database
}

func (c c03Case) ID() string {
	id := fmt.Sprintf("list=%s ctrl=%s mode=%s route=%s pos=%s", c.ListName, c.Controller, c.Mode, c.Route, c.Position)
	if c.Reused {
		id += " options=reused-after-wildcard-db"
	}
	return id
}

func c03Cases() []c03Case {
	var out []c03Case
	lists := []struct {
		name string
		w    []string
	}{{"[A]", []string{"A"}}, {"[A,B]", []string{"A", "B"}}, {"none", nil}, {"[]", []string{}}, {"[*]", []string{"*"}}, {"recorded-empty", []string{}}}
	for _, l := range lists {
		for _, ctrl := range []string{"ipfs", "simple", "orbitdb", "simple-direct"} {
			if l.name == "recorded-empty" && ctrl != "ipfs" {
				continue // the empty list is recorded by hand in the ipfs controller's format
			}
			for _, route := range []string{"local", "sync", "topic", "direct", "ancestor", "ancestor-refs"} {
				if ctrl == "simple-direct" && (route == "topic" || route == "direct" || l.w == nil || len(l.w) == 0) {
					continue // constructor-built replicas do not replicate over pubsub; the list is explicit
				}
				modes := c03Modes
				if route == "local" {
					modes = []string{"honest-nonwriter"}
				}
				if strings.HasPrefix(route, "ancestor") && l.name != "[A,B]" {
					continue // needs an authorised colluder
				}
				for _, m := range modes {
					positions := []string{"alone", "after-honest", "before-honest"}
					if route == "local" || strings.HasPrefix(route, "ancestor") {
						positions = []string{"after-honest"}
					}
					for _, p := range positions {
						out = append(out, c03Case{Writers: l.w, ListName: l.name, Controller: ctrl, Mode: m, Route: route, Position: p})
						if ctrl == "ipfs" && l.name != "[*]" && l.name != "recorded-empty" {
							out = append(out, c03Case{Writers: l.w, ListName: l.name, Controller: ctrl, Mode: m, Route: route, Position: p, Reused: true})
						}
					}
				}
			}
		}
	}
	return out
}

func runC03Case(c c03Case) (string, []explore.Violation) {
	opts := AdvOptions{Kind: "eventlog", Writers: c.Writers, Controller: c.Controller, ReusedOptions: c.Reused, RecordedEmpty: c.ListName == "recorded-empty"}
	if c.Controller == "simple-direct" {
		opts.Controller, opts.SimpleDirect = "", true
	}
	w, err := NewAdv(opts)
	if err != nil {
		// a controller type with which no database can be created or opened offers no replica to attack
		return "skipped: database cannot be constructed (" + firstLine(err.Error()) + ")", nil
	}
	defer w.Close()
	wildcard := c.ListName == "[*]"
	var vs []explore.Violation
	bad := func(sig, detail string) {
		vs = append(vs, explore.Violation{Signature: sig, Detail: c.ID() + ": " + detail})
	}
	h1, err := w.Write(w.SA, "h1")
	if err != nil && c.ListName == "recorded-empty" {
		// nobody may write to this database, its creator included: that refusal is itself the first thing to see;
		// there is no honest entry, so forged heads are announced alone
		h1 = nil
		if w.SA.OpLog().Len() != 0 {
			bad("refused-local-write-changed-state", "the creator's refused write left an entry in its log")
		}
		if c.Position != "alone" && c.Route != "local" {
			return "skipped: no honest entry exists in a database nobody may write to", vs
		}
	} else if err != nil {
		return "skipped: honest writer cannot write (" + firstLine(err.Error()) + ")", nil
	} else if c.ListName == "recorded-empty" {
		bad("local-write-by-nonwriter-succeeded", "the database records an empty write list, yet the peer that built it can write")
		return "creator wrote to a database nobody may write to", vs
	}
	if c.Route == "local" {
		var sn iface.Store
		if c.Controller == "simple-direct" {
			sn, err = w.SimpleStore(w.N)
		} else {
			nopts := &iface.CreateDBOptions{Replicate: boolp(false)}
			if c.Reused {
				if _, err := w.N.DB.Open(bg, w.PubAddr, nopts); err != nil {
					return "harness: non-writer cannot open the wildcard database: " + firstLine(err.Error()), nil
				}
			}
			sn, err = w.N.DB.Open(bg, w.Addr, nopts)
		}
		if err != nil {
			return "skipped: non-writer cannot open", nil
		}
		if h1 != nil {
			_ = sn.Sync(bg, toLogEntries(wire([]*entry.Entry{h1})))
			_ = sim.Quiesce()
		}
		before := fmt.Sprint(hashesOf(sn.OpLog().Values().Slice()), hashesOf(sn.OpLog().Heads().Slice()))
		cacheBefore, _ := sn.Cache().Get(bg, datastore.NewKey("_localHeads"))
		_, werr := sn.(iface.EventLogStore).Add(bg, []byte("evil"))
		_ = sim.Quiesce()
		after := fmt.Sprint(hashesOf(sn.OpLog().Values().Slice()), hashesOf(sn.OpLog().Heads().Slice()))
		cacheAfter, _ := sn.Cache().Get(bg, datastore.NewKey("_localHeads"))
		if wildcard {
			return fmt.Sprintf("wildcard: local write err=%v", werr != nil), nil
		}
		if werr == nil {
			bad("local-write-by-nonwriter-succeeded", "Add returned no error")
		}
		if before != after || string(cacheBefore) != string(cacheAfter) {
			bad("refused-local-write-changed-state", fmt.Sprintf("log/heads %s -> %s", before, after))
		}
		ops, _ := sn.(iface.EventLogStore).List(bg, &iface.StreamOptions{Amount: intp(-1)})
		for _, o := range ops {
			if string(o.GetValue()) == "evil" {
				bad("refused-local-write-visible", "the refused value is listed")
			}
		}
		return "local write refused=" + fmt.Sprint(werr != nil), vs
	}
	// remote routes
	var announce []*entry.Entry
	var forged *entry.Entry
	sender := w.N
	switch c.Route {
	case "ancestor", "ancestor-refs":
		forged, err = w.forgeAuthor(c.Mode, "forged", 1, nil)
		if err != nil {
			return "harness: " + err.Error(), nil
		}
		bspec := ForgeSpec{LogID: w.Addr, Payload: addPayload("b1"), Time: 2, Signer: w.B.DB.Identity(), Next: []cid.Cid{forged.Hash}}
		if c.Route == "ancestor-refs" {
			// the colluder's head names the entry in its skip list only (entries reached through next links are
			// never heads of the fetched log; one reached through refs alone is)
			bspec.Next, bspec.Refs = nil, []cid.Cid{forged.Hash}
		}
		b1, err := Forge(w.B.Peer.API(), bspec)
		if err != nil {
			return "harness: " + err.Error(), nil
		}
		w.Names[b1.Hash.String()] = "b1"
		announce, sender = []*entry.Entry{b1}, w.B
	default:
		forged, err = w.forgeAuthor(c.Mode, "forged", 2, nil)
		if err != nil {
			return "harness: " + err.Error(), nil
		}
		switch c.Position {
		case "alone":
			announce = []*entry.Entry{forged}
		case "after-honest":
			announce = []*entry.Entry{h1, forged}
		case "before-honest":
			announce = []*entry.Entry{forged, h1}
		}
	}
	route := c.Route
	if strings.HasPrefix(route, "ancestor") {
		route = "sync"
	}
	if err := w.Deliver(route, sender, announce); err != nil {
		return "harness: " + err.Error(), nil
	}
	if err := sim.Quiesce(); err != nil {
		return "harness: not quiescent", nil
	}
	// honest re-announcement so that the expected honest view is well defined
	if h1 != nil {
		_ = w.Deliver("sync", w.A, []*entry.Entry{h1})
		_ = sim.Quiesce()
	}
	merged := w.VictimHas(forged.Hash)
	view := w.VictimView()
	if wildcard {
		return fmt.Sprintf("wildcard: merged=%v", merged), nil
	}
	if merged {
		bad("unauthorised-entry-merged:"+c.Mode, fmt.Sprintf("victim log %v", w.VictimSet()))
	}
	if strings.Contains(","+view+",", ",forged,") {
		bad("unauthorised-entry-visible:"+c.Mode, fmt.Sprintf("victim view %q", view))
	}
	if h1 != nil && !w.VictimHas(h1.Hash) {
		bad("honest-entry-missing", fmt.Sprintf("victim log %v", w.VictimSet()))
	}
	return fmt.Sprintf("merged=%v", merged), vs
}

func firstLine(s string) string {
	if i := strings.IndexByte(s, '\n'); i >= 0 {
		s = s[:i]
	}
	if len(s) > 100 {
		s = s[:100]
	}
	return s
}

func init() {
	explore.Register(&explore.CheckDef{
		ID: "C03", Level: "exploration",
		Rule:   "full cross product, each case on a fresh world: write list {[A],[A,B],none (creator default),[],[*]} x controller {ipfs, simple and orbitdb through a manifest, simple through the store constructor} x route {local write by the non-writer, manual sync, topic message, direct-channel exchange, ancestor of an authorised colluder's head} x forging mode {honest non-writer, writer's id copied into the attacker's identity block, writer's whole identity block with the attacker's key and signature, writer's block and key with the attacker's signature, writer's id with identity signatures recomputed by the attacker, writer's id in a block whose type has no registered identity provider} x position {alone, after, before an honest head}. Oracle: the local write fails and changes nothing; after quiescence the forged entry is in no victim log or view and the honest entry is. Wildcard lists and controllers with which no database can be built are recorded, not judged. Non-trivial = cases with a forged author field (every mode but the honest non-writer).",
		Units:  func(tier string) []explore.Unit { return explore.ChunkUnits("c03", 16) },
		Budget: func(tier string) float64 { return 300 },
		RunUnit: func(c *explore.Ctx) {
			_, i, n := explore.ParseChunk(c.Spec.Unit.Arg)
			var cases []explore.Case
			for _, cs := range c03Cases() {
				cs := cs
				cases = append(cases, explore.Case{ID: cs.ID(), Nontrivial: cs.Mode != "honest-nonwriter", Run: func() (string, []explore.Violation) { return runC03Case(cs) }})
			}
			explore.RunCases(c, "C03", cases, i, n)
		},
		Assumptions: []string{
			"environment is the deterministic simulation in /verif/mc/sim; forged entries are built from entry structs, signed with the attacker's simulated keys and stored on the attacker's peer",
			"whether an entry is really signed by a listed identity is known by construction of each forging mode, not taken from the code under test",
		},
	})
}
