package scen

import (
	"encoding/hex"

	"github.com/libp2p/go-libp2p/core/crypto"
	"encoding/json"
	"fmt"
	"strings"

	"berty.tech/go-ipfs-log/entry"
	idp "berty.tech/go-ipfs-log/identityprovider"
	logio "berty.tech/go-ipfs-log/io"
	cid "github.com/ipfs/go-cid"
	"verifmc/explore"
	"verifmc/sim"
)

type mutation struct {
	name string
	// apply mutates a deep copy of the entry; signed reports whether the mutated field is covered by
	// the entry signature (or is the signature/key itself), hashOnly whether only the claimed hash changes.
	apply    func(e *entry.Entry, w *Adv)
	signed   bool
	hashOnly bool
	identity bool // touches the identity block (judged by C03, recorded here)
}

func deepCopyEntry(e *entry.Entry) *entry.Entry {
	c := *e
	c.Payload = append([]byte{}, e.Payload...)
	c.Next = append([]cid.Cid{}, e.Next...)
	c.Refs = append([]cid.Cid{}, e.Refs...)
	c.Key = append([]byte{}, e.Key...)
	c.Sig = append([]byte{}, e.Sig...)
	c.Identity = CopyIdentity(e.Identity)
	c.Clock = entry.NewLamportClock(append([]byte{}, e.Clock.GetID()...), e.Clock.GetTime())
	return &c
}

func mutations() []mutation {
	flip := func(b []byte) []byte {
		if len(b) == 0 {
			return []byte{1}
		}
		c := append([]byte{}, b...)
		c[len(c)/2] ^= 0x01
		return c
	}
	m := []mutation{
		{name: "payload-flip", signed: true, apply: func(e *entry.Entry, w *Adv) { e.Payload = addPayload("tampered") }},
		{name: "clock.time+1", signed: true, apply: func(e *entry.Entry, w *Adv) { e.Clock = entry.NewLamportClock(e.Clock.GetID(), e.Clock.GetTime()+1) }},
		{name: "clock.time-1", signed: true, apply: func(e *entry.Entry, w *Adv) { e.Clock = entry.NewLamportClock(e.Clock.GetID(), e.Clock.GetTime()-1) }},
		{name: "clock.time=0", signed: true, apply: func(e *entry.Entry, w *Adv) { e.Clock = entry.NewLamportClock(e.Clock.GetID(), 0) }},
		{name: "clock.time=huge", signed: true, apply: func(e *entry.Entry, w *Adv) { e.Clock = entry.NewLamportClock(e.Clock.GetID(), 1<<40) }},
		{name: "clock.id=other-writer", signed: true, apply: func(e *entry.Entry, w *Adv) {
			e.Clock = entry.NewLamportClock(w.B.DB.Identity().PublicKey, e.Clock.GetTime())
		}},
		{name: "clock.id=garbage", signed: true, apply: func(e *entry.Entry, w *Adv) { e.Clock = entry.NewLamportClock([]byte{1, 2, 3}, e.Clock.GetTime()) }},
		{name: "next-drop", signed: true, apply: func(e *entry.Entry, w *Adv) {
			if len(e.Next) > 0 {
				e.Next = e.Next[1:]
			} else {
				e.Next = []cid.Cid{w.SA.Address().GetRoot()}
			}
		}},
		{name: "next-add", signed: true, apply: func(e *entry.Entry, w *Adv) { e.Next = append(e.Next, w.SA.Address().GetRoot()) }},
		{name: "next-replace", signed: true, apply: func(e *entry.Entry, w *Adv) { e.Next = []cid.Cid{w.SA2.Address().GetRoot()} }},
		{name: "refs-drop-or-add", signed: true, apply: func(e *entry.Entry, w *Adv) {
			if len(e.Refs) > 0 {
				e.Refs = nil
			} else {
				e.Refs = []cid.Cid{w.SA.Address().GetRoot()}
			}
		}},
		{name: "key=other-writer", signed: true, apply: func(e *entry.Entry, w *Adv) { e.Key = w.B.DB.Identity().PublicKey }},
		{name: "key=garbage", signed: true, apply: func(e *entry.Entry, w *Adv) { e.Key = []byte{4, 1, 2, 3} }},
		{name: "key=empty", signed: true, apply: func(e *entry.Entry, w *Adv) { e.Key = nil }},
		{name: "sig-bitflip", signed: true, apply: func(e *entry.Entry, w *Adv) { e.Sig = flip(e.Sig) }},
		{name: "sig-truncated", signed: true, apply: func(e *entry.Entry, w *Adv) { e.Sig = e.Sig[:len(e.Sig)/2] }},
		{name: "sig-empty", signed: true, apply: func(e *entry.Entry, w *Adv) { e.Sig = nil }},
		{name: "logid=other-database", signed: true, apply: func(e *entry.Entry, w *Adv) { e.LogID = w.SA2.Address().String() }},
		{name: "logid=empty", signed: true, apply: func(e *entry.Entry, w *Adv) { e.LogID = "" }},
		{name: "v=1", signed: true, apply: func(e *entry.Entry, w *Adv) { e.V = 1 }},
		{name: "v=3", signed: true, apply: func(e *entry.Entry, w *Adv) { e.V = 3 }},
		{name: "identity.id=other-writer", identity: true, apply: func(e *entry.Entry, w *Adv) { e.Identity.ID = w.B.DB.Identity().ID }},
		{name: "identity.id=garbage", identity: true, apply: func(e *entry.Entry, w *Adv) { e.Identity.ID = "zz" }},
		{name: "identity.publicKey=other-writer", identity: true, apply: func(e *entry.Entry, w *Adv) { e.Identity.PublicKey = w.B.DB.Identity().PublicKey }},
		{name: "identity.signatures.id-flip", identity: true, apply: func(e *entry.Entry, w *Adv) { e.Identity.Signatures.ID = flip(e.Identity.Signatures.ID) }},
		{name: "identity.signatures.publicKey-flip", identity: true, apply: func(e *entry.Entry, w *Adv) { e.Identity.Signatures.PublicKey = flip(e.Identity.Signatures.PublicKey) }},
		{name: "identity.type=other", identity: true, apply: func(e *entry.Entry, w *Adv) { e.Identity.Type = "other" }},
		{name: "hash=other-valid-cid", hashOnly: true, apply: func(e *entry.Entry, w *Adv) { e.Hash = w.SA.Address().GetRoot() }},
		{name: "hash=undefined", hashOnly: true, apply: func(e *entry.Entry, w *Adv) { e.Hash = cid.Undef }},
		// aliases of the genuine address: same digest, another codec / CID version (the content does not hash to them)
		{name: "hash=alias-raw-codec", hashOnly: true, apply: func(e *entry.Entry, w *Adv) { e.Hash = cid.NewCidV1(cid.Raw, e.Hash.Hash()) }},
		{name: "hash=alias-dagpb-codec", hashOnly: true, apply: func(e *entry.Entry, w *Adv) { e.Hash = cid.NewCidV1(cid.DagProtobuf, e.Hash.Hash()) }},
		{name: "hash=alias-cidv0", hashOnly: true, apply: func(e *entry.Entry, w *Adv) { e.Hash = cid.NewCidV0(e.Hash.Hash()) }},
	}
	return m
}

type c04Case struct {
	Target   string // root | chain | merge
	Mut      int
	MutName  string
	Delivery string // original-hash | recomputed-hash | ancestor
	Route    string
	Pre      string // empty | holds
	// Fault: the victim's block writes issued by its replicator (the re-encoding with which it re-derives the
	// address of what it fetched) fail while the tampered entry is being processed
	Fault bool
	// Wildcard: the database's write list is ["*"] (anyone may write; a tampered entry is still tampered)
	Wildcard bool
}

func (c c04Case) ID() string {
	f := ""
	if c.Fault {
		f = " fault=replicator-block-write-fails"
	}
	if c.Wildcard {
		f += " list=[*]"
	}
	return fmt.Sprintf("target=%s mut=%s delivery=%s route=%s pre=%s%s", c.Target, c.MutName, c.Delivery, c.Route, c.Pre, f)
}

func c04Cases() []c04Case {
	var out []c04Case
	ms := mutations()
	for _, t := range []string{"root", "chain", "merge"} {
		for i, m := range ms {
			for _, d := range []string{"original-hash", "recomputed-hash", "ancestor"} {
				if m.hashOnly && d == "recomputed-hash" {
					continue
				}
				if m.hashOnly && d == "ancestor" && !strings.HasPrefix(m.name, "hash=alias") {
					continue // a link to some other block or to nothing is not a link to this entry
				}
				for _, r := range []string{"sync", "topic", "direct"} {
					if d == "ancestor" && r != "sync" {
						continue
					}
					for _, pre := range []string{"empty", "holds"} {
						out = append(out, c04Case{Target: t, Mut: i, MutName: m.name, Delivery: d, Route: r, Pre: pre})
						if d == "ancestor" {
							// an environment fault at the victim's own verification step must not let the entry in
							out = append(out, c04Case{Target: t, Mut: i, MutName: m.name, Delivery: d, Route: r, Pre: pre, Fault: true})
						}
						if t == "chain" && r == "sync" {
							// the same on a database anyone may write to
							out = append(out, c04Case{Target: t, Mut: i, MutName: m.name, Delivery: d, Route: r, Pre: pre, Wildcard: true})
						}
					}
				}
			}
		}
	}
	return out
}

func runC04Case(c c04Case) (string, []explore.Violation) {
	writers := []string{"A", "B"}
	if c.Wildcard {
		writers = []string{"*"}
	}
	w, err := NewAdv(AdvOptions{Kind: "eventlog", Writers: writers})
	if err != nil {
		return "harness: " + err.Error(), nil
	}
	defer w.Close()
	var vs []explore.Violation
	bad := func(sig, detail string) {
		vs = append(vs, explore.Violation{Signature: sig, Detail: c.ID() + ": " + detail})
	}
	// valid history on A: a1 (root), a2, a3 (chain member with refs), then merge of B's b1, a4 (two nexts)
	a1, _ := w.Write(w.SA, "a1")
	_, _ = w.Write(w.SA, "a2")
	a3, _ := w.Write(w.SA, "a3")
	b1, err := w.Write(w.SB, "b1")
	if err != nil {
		return "harness: " + err.Error(), nil
	}
	_ = w.SA.Sync(bg, toLogEntries(wire([]*entry.Entry{b1})))
	_ = sim.Quiesce()
	a4, err := w.Write(w.SA, "a4")
	if err != nil || len(a4.Next) < 2 {
		return "harness: merge entry not built", nil
	}
	target := map[string]*entry.Entry{"root": a1, "chain": a3, "merge": a4}[c.Target]
	validHeads := []*entry.Entry{a4}
	if c.Pre == "holds" {
		_ = w.Deliver("sync", w.A, validHeads)
		_ = sim.Quiesce()
		if len(w.VictimSet()) != 5 {
			return "harness: victim pre-state incomplete", nil
		}
	}
	beforeSet, beforeView := strings.Join(w.VictimSet(), ","), w.VictimView()
	m := mutations()[c.Mut]
	mut := deepCopyEntry(target)
	m.apply(mut, w)
	w.Names[target.Hash.String()] = w.Name(target.Hash) // keep
	misaddressed := false
	switch c.Delivery {
	case "original-hash":
		// claimed hash stays that of the genuine entry (or is itself the mutated field): content no longer matches
		misaddressed = true
	case "recomputed-hash", "ancestor":
		if m.hashOnly {
			// an alias address reached through a link: the bytes behind it are the genuine entry's
			misaddressed = true
			break
		}
		if err := Rehash(w.N.Peer.API(), mut); err != nil {
			return "skipped: mutant cannot be encoded (" + firstLine(err.Error()) + ")", nil
		}
	}
	if !misaddressed {
		w.Names[mut.Hash.String()] = "MUTANT"
	}
	// independent classification
	badSig := false
	if !misaddressed {
		prov := idp.NewOrbitDBIdentityProvider(&idp.CreateIdentityOptions{})
		func() {
			defer func() {
				if recover() != nil {
					badSig = true // content the verifier itself cannot process is not validly signed
				}
			}()
			badSig = mut.Verify(prov, logio.CBOR()) != nil
		}()
	}
	foreign := mut.LogID != w.Addr
	// the identity block carries two signatures of its own (id by the identity's key; key + that signature by
	// the key the id is derived from): an "orbitdb" identity block whose signatures do not verify against the
	// block's content is tampered content as well (checked here by the harness's own verification)
	badIdentity := !misaddressed && m.identity && mut.Identity != nil && mut.Identity.Type == "orbitdb" && !identityBlockGenuine(mut.Identity)
	judged := misaddressed || badSig || foreign || badIdentity
	var announce []*entry.Entry
	sender := w.N
	switch c.Delivery {
	case "ancestor":
		hb, err := Forge(w.B.Peer.API(), ForgeSpec{LogID: w.Addr, Payload: addPayload("bhead"), Time: mut.Clock.GetTime() + 1, Signer: w.B.DB.Identity(), Next: []cid.Cid{mut.Hash}})
		if err != nil {
			return "harness: " + err.Error(), nil
		}
		w.Names[hb.Hash.String()] = "bhead"
		announce, sender = []*entry.Entry{hb}, w.B
	default:
		announce = []*entry.Entry{mut}
	}
	if c.Fault {
		w.Net.Gates.Enable(func(kind, peer, key, caller string) bool {
			return kind == "dag.add" && peer == "V" && strings.HasPrefix(caller, "replicator.")
		})
	}
	func() {
		defer func() {
			if r := recover(); r != nil {
				panic(r)
			}
		}()
		_ = w.Deliver(c.Route, sender, announce)
	}()
	if c.Fault {
		for i := 0; i < 50; i++ {
			if err := sim.Quiesce(); err != nil {
				break
			}
			parked := w.Net.Gates.Parked()
			if len(parked) == 0 {
				break
			}
			for _, l := range parked {
				_ = w.Net.Gates.Release(l, sim.AnswerFail)
			}
		}
		w.Net.Gates.Enable(nil)
	}
	if err := sim.Quiesce(); err != nil {
		bad("hang-after-tampered-entry", "system keeps running")
		return "hang", vs
	}
	merged := false
	if mut.Hash.Defined() {
		if got, ok := w.VictimEntry(mut.Hash); ok {
			if !misaddressed {
				merged = true
			} else {
				// the address is that of a genuine entry: merged means the victim holds the tampered content under it
				gj, _ := json.Marshal(got)
				oj, _ := json.Marshal(genuineAt(mut.Hash, a1, a3, a4, target))
				merged = string(gj) != string(oj)
			}
		}
	}
	afterSet := w.VictimSet()
	class := "valid-or-not-judged"
	switch {
	case misaddressed:
		class = "mis-addressed"
	case badSig:
		class = "bad-signature"
	case foreign:
		class = "foreign"
	case badIdentity:
		class = "bad-identity-signature"
	}
	if judged && merged {
		bad("tampered-entry-merged:"+class+":"+fieldOf(m.name), fmt.Sprintf("victim log %v", afterSet))
	}
	if judged && strings.Contains(","+w.VictimView()+",", ",tampered,") {
		bad("tampered-entry-visible:"+class, w.VictimView())
	}
	if c.Pre == "holds" {
		for _, n := range strings.Split(beforeSet, ",") {
			found := false
			for _, x := range afterSet {
				if x == n {
					found = true
				}
			}
			if !found {
				bad("held-valid-entry-lost", fmt.Sprintf("%s was held before, log now %v", n, afterSet))
			}
		}
		if judged && c.Delivery != "ancestor" && w.VictimView() != beforeView {
			bad("held-view-changed-by-rejected-entry", fmt.Sprintf("%q -> %q", beforeView, w.VictimView()))
		}
	}
	return fmt.Sprintf("%s merged=%v", class, merged), vs
}

// identityBlockGenuine re-verifies the two signatures of an "orbitdb" identity block.
func identityBlockGenuine(id *idp.Identity) bool {
	if id == nil || id.Signatures == nil {
		return false
	}
	pk, err := crypto.UnmarshalSecp256k1PublicKey(id.PublicKey)
	if err != nil {
		return false
	}
	if ok, err := pk.Verify([]byte(id.ID), id.Signatures.ID); err != nil || !ok {
		return false
	}
	raw, err := hex.DecodeString(id.ID)
	if err != nil {
		return false
	}
	idKey, err := crypto.UnmarshalSecp256k1PublicKey(raw)
	if err != nil {
		return false
	}
	msg := []byte(hex.EncodeToString(append(append([]byte{}, id.PublicKey...), id.Signatures.ID...)))
	ok, err := idKey.Verify(msg, id.Signatures.PublicKey)
	return err == nil && ok
}

// genuineAt returns the genuine entry whose address is c (or the target if none matches).
func genuineAt(c cid.Cid, candidates ...*entry.Entry) *entry.Entry {
	for _, e := range candidates {
		if e.Hash.Equals(c) {
			return e
		}
	}
	return candidates[len(candidates)-1]
}

// runC04ForeignHistory: the genuine head of ANOTHER database of the same authorised writer, with a history
// of k entries, is announced to the victim: none of them may show up.
func runC04ForeignHistory(k int, route, pre string) (string, []explore.Violation) {
	w, err := NewAdv(AdvOptions{Kind: "eventlog", Writers: []string{"A", "B"}})
	if err != nil {
		return "harness: " + err.Error(), nil
	}
	defer w.Close()
	id := fmt.Sprintf("foreign history of %d entries route=%s pre=%s", k, route, pre)
	var vs []explore.Violation
	a1, _ := w.Write(w.SA, "a1")
	a2, _ := w.Write(w.SA, "a2")
	_ = a1
	if pre == "holds" {
		_ = w.Deliver("sync", w.A, []*entry.Entry{a2})
		_ = sim.Quiesce()
	}
	before, beforeView := strings.Join(w.VictimSet(), ","), w.VictimView()
	var head *entry.Entry
	var foreign []*entry.Entry
	for i := 1; i <= k; i++ {
		head, err = w.Write(w.SA2, fmt.Sprintf("f%d", i))
		if err != nil {
			return "harness: " + err.Error(), nil
		}
		foreign = append(foreign, head)
	}
	_ = w.Deliver(route, w.A, []*entry.Entry{head})
	if err := sim.Quiesce(); err != nil {
		return "hang", []explore.Violation{{Signature: "hang-after-foreign-history", Detail: id}}
	}
	for _, f := range foreign {
		if w.VictimHas(f.Hash) {
			vs = append(vs, explore.Violation{Signature: "foreign-database-entry-merged:history", Detail: fmt.Sprintf("%s: victim exposes %s (log %v)", id, w.Name(f.Hash), w.VictimSet()), History: []string{id}})
			break
		}
	}
	if after := strings.Join(w.VictimSet(), ","); after != before || w.VictimView() != beforeView {
		vs = append(vs, explore.Violation{Signature: "foreign-history-changed-victim", Detail: fmt.Sprintf("%s: [%s] %q -> [%s] %q", id, before, beforeView, after, w.VictimView()), History: []string{id}})
	}
	return "foreign history rejected=" + fmt.Sprint(len(vs) == 0), vs
}

func fieldOf(mutName string) string {
	if i := strings.IndexAny(mutName, "-=+"); i > 0 {
		return mutName[:i]
	}
	return mutName
}

func init() {
	explore.Register(&explore.CheckDef{
		ID: "C04", Level: "exploration",
		Rule:   "full cross product on fresh worlds: valid entry {root, chain member with refs, merge entry with two nexts} x 32 single-field mutations of its wire form (payload, clock time x4, clock id x2, next x3, refs, key x3, signature x3, log id x2, v x2, identity fields x6, claimed hash x5 incl. same-digest aliases with another codec or CID version) x delivery {announced with the original claimed hash, announced with recomputed hash, stored as a block and referenced as ancestor by an authorised colluder's valid head} (the ancestor delivery also with the victim's replicator block writes failing) x route {sync, topic, direct channel} x victim pre-state {empty, already holds the valid entries}; the chain-member cases over the sync route also on a database whose write list is the wildcard. The harness classifies each mutant independently (content does not hash to the claimed address; the dependency's signature verification over the mutated content fails; log id differs); mutants in a class must be absent from log and view and the held entries and view unchanged; an \"orbitdb\" identity block whose own two signatures do not verify (re-verified by the harness) is a class as well; mutants in no class (identity type changes, judged by C03) are recorded only. Plus: the genuine head of another database of the same writer with a history of 1, 2, 3, 5 entries x route x pre-state; no foreign entry may be exposed. Non-trivial = judged mutants.",
		Units:  func(tier string) []explore.Unit { return explore.ChunkUnits("c04", 16) },
		Budget: func(tier string) float64 { return 400 },
		RunUnit: func(c *explore.Ctx) {
			_, i, n := explore.ParseChunk(c.Spec.Unit.Arg)
			var cases []explore.Case
			ms := mutations()
			for _, cs := range c04Cases() {
				cs := cs
				cases = append(cases, explore.Case{ID: cs.ID(), Nontrivial: ms[cs.Mut].name != "identity.type=other", Run: func() (string, []explore.Violation) { return runC04Case(cs) }})
			}
			for _, k := range []int{1, 2, 3, 5} {
				for _, r := range []string{"sync", "topic", "direct"} {
					for _, pre := range []string{"empty", "holds"} {
						k, r, pre := k, r, pre
						cases = append(cases, explore.Case{ID: fmt.Sprintf("foreign history of %d entries route=%s pre=%s", k, r, pre), Nontrivial: true,
							Run: func() (string, []explore.Violation) { return runC04ForeignHistory(k, r, pre) }})
					}
				}
			}
			explore.RunCases(c, "C04", cases, i, n)
		},
		Assumptions: []string{
			"environment is the deterministic simulation in /verif/mc/sim; blocks are content-addressed, so an ancestor fetched by a link is whatever hashes to that link",
			"signature validity of a mutant is computed by the dependency's entry.Verify over the mutated content, not by go-orbit-db",
		},
	})
}
