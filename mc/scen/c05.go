package scen

import (
	"encoding/json"
	"fmt"
	"os"
	"sort"
	"strings"

	ipfslog "berty.tech/go-ipfs-log"
	orbitdb "berty.tech/go-orbit-db"
	"berty.tech/go-orbit-db/accesscontroller"
	"berty.tech/go-orbit-db/iface"
	"berty.tech/go-orbit-db/stores"
	"berty.tech/go-orbit-db/stores/basestore"
	"verifmc/explore"
	"verifmc/sim"
)

// refView renders the view that the reference model derives from a set of entries.
func refView(kind string, es []ipfslog.Entry) string {
	ord := RefOrder(es)
	switch kind {
	case "eventlog":
		var l []string
		for _, e := range ord {
			op, err := parseOp(e)
			if err == nil {
				l = append(l, string(op.GetValue()))
			}
		}
		return strings.Join(l, ",")
	case "keyvalue":
		m, _ := RefKV(ord)
		return kvString(m)
	case "docstore":
		m, _ := RefDocs(ord)
		return refMultiset(m, func(string, []byte) bool { return true })
	}
	return ""
}

type crashHistory struct {
	kind    string
	actions []string
}

// runCrashHistory executes one history on replica R, then recovers from every prefix of R's effect log.
func runCrashHistory(h crashHistory, seen map[uint64]bool, st *explore.Stats) (string, []explore.Violation) {
	net := sim.NewNet()
	net.PubSub.AutoDeliver = true
	rPeer, aPeer := net.AddPeer("R"), net.AddPeer("A")
	R, err := rPeer.Start(nil)
	if err != nil {
		return "harness: " + err.Error(), nil
	}
	A, err := aPeer.Start(nil)
	if err != nil {
		return "harness: " + err.Error(), nil
	}
	B, err := net.AddPeer("B").Start(nil)
	if err != nil {
		return "harness: " + err.Error(), nil
	}
	defer func() { _ = R.Close(); _ = A.Close(); _ = B.Close(); _ = sim.Quiesce() }()
	ac := accesscontroller.NewEmptyManifestParams()
	ac.SetAccess("write", []string{R.DB.Identity().ID, A.DB.Identity().ID, B.DB.Identity().ID})
	sr, err := R.DB.Create(bg, "db", h.kind, &orbitdb.CreateDBOptions{AccessController: ac, Replicate: boolp(false)})
	if err != nil {
		return "harness: " + err.Error(), nil
	}
	addr := sr.Address().String()
	sa, err := A.DB.Open(bg, addr, &orbitdb.CreateDBOptions{Replicate: boolp(false)})
	if err != nil {
		return "harness: " + err.Error(), nil
	}
	sb, err := B.DB.Open(bg, addr, &orbitdb.CreateDBOptions{Replicate: boolp(false)})
	if err != nil {
		return "harness: " + err.Error(), nil
	}
	_ = sim.Quiesce()
	identityBefore := R.DB.Identity().ID
	k0 := len(rPeer.Effects())
	R.Bus.Monitor(func(evt interface{}) {
		if e, ok := evt.(stores.EventReplicated); ok {
			rPeer.Ack("R:" + strings.Join(hashesOf(e.Entries), ","))
		}
	})
	n := 0
	for _, a := range h.actions {
		n++
		switch a {
		case "w":
			if err := writeAny(sr, fmt.Sprintf("r%d", n)); err == nil {
				rPeer.Ack("W:" + sr.OpLog().Heads().Slice()[0].GetHash().String())
			}
		case "wf": // a local write whose head-list write fails: it may only be acknowledged if it is recoverable all the same
			var werr error
			withFailingPut(net, "R", "_localHeads", func() { werr = writeAny(sr, fmt.Sprintf("r%d", n)) })
			if werr == nil {
				rPeer.Ack("W:" + sr.OpLog().Heads().Slice()[0].GetHash().String())
			}
		case "syncf": // a merge whose head-list write fails
			if sa.OpLog().Len() > 0 {
				hs, _ := WireCopy(addr, sa.OpLog().Heads().Slice())
				withFailingPut(net, "R", "_remoteHeads", func() { _ = sr.Sync(bg, hs) })
			}
		case "aw":
			_ = writeAny(sa, fmt.Sprintf("a%d", n))
		case "sync":
			if sa.OpLog().Len() > 0 {
				hs, _ := WireCopy(addr, sa.OpLog().Heads().Slice())
				_ = sr.Sync(bg, hs)
			}
		case "bw":
			_ = writeAny(sb, fmt.Sprintf("b%d", n))
		case "syncb":
			if sb.OpLog().Len() > 0 {
				hs, _ := WireCopy(addr, sb.OpLog().Heads().Slice())
				_ = sr.Sync(bg, hs)
			}
		case "snap":
			_, _ = basestore.SaveSnapshot(bg, sr)
		}
		if err := sim.Quiesce(); err != nil {
			return "harness: not quiescent", nil
		}
	}
	effects := rPeer.Effects()
	written := map[string]ipfslog.Entry{}
	for _, s := range []iface.Store{sr, sa, sb} {
		for _, e := range s.OpLog().GetEntries().Slice() {
			written[e.GetHash().String()] = e
		}
	}
	var vs []explore.Violation
	recoveries := 0
	for k := k0; k <= len(effects); k++ {
		var sig strings.Builder
		for _, e := range effects[:k] {
			if e.Kind == "ack" {
				continue
			}
			fmt.Fprintf(&sig, "%s|%s|%s|%x;", e.Kind, e.Space, e.Key, explore.Hash(string(e.Value)))
		}
		// acknowledgements do not change what is on disk, but they change what must be recovered
		var acked []string
		for _, e := range effects[:k] {
			if e.Kind == "ack" {
				for _, hsh := range strings.Split(e.Key[2:], ",") {
					acked = append(acked, hsh)
				}
			}
		}
		sort.Strings(acked)
		id := explore.Hash(h.kind + sig.String() + strings.Join(acked, ","))
		if seen[id] {
			continue
		}
		seen[id] = true
		recoveries++
		st.Count("recoveries")
		st.State(fmt.Sprintf("crash-image|%x", id))
		for _, v := range recoverAndCheck(h.kind, addr, effects[:k], acked, written, identityBefore) {
			v.Detail = fmt.Sprintf("history %v, crash after effect %d of %d (%s): %s", h.actions, k, len(effects), describeEffect(effects, k), v.Detail)
			v.History = append(append([]string{h.kind}, h.actions...), fmt.Sprintf("crash@%d", k))
			vs = append(vs, v)
		}
	}
	return fmt.Sprintf("effects=%d", len(effects)-k0), vs
}

// runC05Concurrent: every schedule of concurrent writers (the C17 world), and after each one every prefix of
// the peer's effect log as a crash image; acknowledgements are marks in that log.
func runC05Concurrent(c *explore.Ctx, arg string) {
	var a C17Arg
	if err := json.Unmarshal([]byte(arg), &a); err != nil {
		c.Stats.HarnessErrs = append(c.Stats.HarnessErrs, err.Error())
		return
	}
	seen := map[uint64]bool{}
	d := &explore.ScheduleDFS{
		Settle: settle, Scenario: "crash-during-" + a.Name(),
		New:    func() (explore.World, error) { return NewConcWritersPre(a.Kind, a.N, a.Per, false, a.Merge, false, a.Pre) },
		Bound:  a.Bound, Horizon: 400, Stats: c.Stats, Journal: c.JournalHist, Expired: c.Expired,
		Shards: a.Shards, Shard: a.Shard,
		Terminal: func(world explore.World, hist []string) []explore.Violation {
			w := world.(*ConcWriters)
			w.net.Gates.Enable(nil) // every writer has returned; the recoveries below must not park
			effects := w.peer.Effects()
			written := map[string]ipfslog.Entry{}
			for _, e := range w.store.OpLog().GetEntries().Slice() {
				written[e.GetHash().String()] = e
			}
			kind, addr, identity, k0 := w.storeType(), w.addr, w.identity, w.k0
			var vs []explore.Violation
			for k := k0; k <= len(effects); k++ {
				var sig strings.Builder
				var acked []string
				for _, e := range effects[:k] {
					if e.Kind == "ack" {
						acked = append(acked, strings.Split(e.Key[2:], ",")...)
						continue
					}
					fmt.Fprintf(&sig, "%s|%s|%s|%x;", e.Kind, e.Space, e.Key, explore.Hash(string(e.Value)))
				}
				sort.Strings(acked)
				id := explore.Hash(kind + sig.String() + strings.Join(acked, ","))
				if seen[id] {
					continue
				}
				c.Stats.Count("recoveries")
				c.Stats.State(fmt.Sprintf("crash-image|%x", id))
				rv := recoverAndCheckAs("W", kind, addr, effects[:k], acked, written, identity)
				if len(rv) == 0 {
					seen[id] = true // a clean image is not recovered again; one with a finding is (confirmation re-runs)
				}
				for _, v := range rv {
					v.Detail = fmt.Sprintf("crash after effect %d of %d (%s) of this schedule: %s", k, len(effects), describeEffect(effects, k), v.Detail)
					vs = append(vs, v)
				}
			}
			return vs
		},
	}
	d.Run()
	for i := range c.Stats.Violations {
		c.Stats.Violations[i].Property = "C05"
	}
}

func describeEffect(effects []sim.Effect, k int) string {
	if k == 0 {
		return "nothing"
	}
	e := effects[k-1]
	return e.Kind + " " + e.Key
}

func recoverAndCheck(kind, addr string, effects []sim.Effect, acked []string, written map[string]ipfslog.Entry, identityBefore string) (vs []explore.Violation) {
	return recoverAndCheckAs("R", kind, addr, effects, acked, written, identityBefore)
}

// recoverAndCheckAs: the recovering peer keeps the crashed peer's name (its keys are filed under it).
func recoverAndCheckAs(peerName, kind, addr string, effects []sim.Effect, acked []string, written map[string]ipfslog.Entry, identityBefore string) (vs []explore.Violation) {
	net := sim.NewNet()
	p := net.AddPeer(peerName)
	p.Isolated = true
	disk := sim.NewDisk()
	ks := sim.NewKeystore()
	ks.Gen = 1
	for _, e := range effects {
		switch e.Kind {
		case "block":
			p.PutBlock(e.Node)
		case "cache-put", "cache-del", "cache-destroy":
			disk.Apply(e)
		case "key-put":
			_ = ks.Restore(e.Key, e.Value)
		}
	}
	p.SetDurable(disk, ks)
	inst, err := p.Start(nil)
	if err != nil {
		return []explore.Violation{{Signature: "recovery-instance-start-failed", Detail: err.Error()}}
	}
	defer func() { _ = inst.Close(); _ = sim.Quiesce() }()
	if inst.DB.Identity().ID != identityBefore {
		vs = append(vs, explore.Violation{Signature: "identity-changed-across-restart", Detail: fmt.Sprintf("%s -> %s", identityBefore, inst.DB.Identity().ID)})
	}
	s, err := inst.DB.Open(bg, addr, &orbitdb.CreateDBOptions{Replicate: boolp(false)})
	if err != nil {
		return append(vs, explore.Violation{Signature: "recovery-open-failed", Detail: err.Error()})
	}
	if err := s.Load(bg, -1); err != nil {
		return append(vs, explore.Violation{Signature: "recovery-load-failed", Detail: err.Error()})
	}
	if err := sim.Quiesce(); err != nil {
		return append(vs, explore.Violation{Signature: "recovery-hang", Detail: "not quiescent after Load"})
	}
	got := s.OpLog().GetEntries().Slice()
	have := map[string]bool{}
	for _, e := range got {
		have[e.GetHash().String()] = true
	}
	for _, a := range acked {
		if !have[a] {
			vs = append(vs, explore.Violation{Signature: "acknowledged-entry-lost-after-crash", Detail: fmt.Sprintf("acknowledged %s missing; recovered %d entries", short4(a), len(got))})
			break
		}
	}
	for _, e := range got {
		if _, ok := written[e.GetHash().String()]; !ok {
			vs = append(vs, explore.Violation{Signature: "recovered-entry-never-written", Detail: e.GetHash().String()})
		}
		for _, nx := range e.GetNext() {
			if !have[nx.String()] {
				vs = append(vs, explore.Violation{Signature: "recovered-log-not-closed-under-ancestry", Detail: fmt.Sprintf("entry %s recovered without its predecessor %s", short4(e.GetHash().String()), short4(nx.String()))})
			}
		}
	}
	vals := s.OpLog().Values().Slice()
	if len(vals) != len(got) {
		vs = append(vs, explore.Violation{Signature: "recovered-listing-misses-entries", Detail: fmt.Sprintf("%d held, %d listed", len(got), len(vals))})
	}
	if strings.Join(hashesOf(vals), ",") != strings.Join(hashesOf(RefOrder(got)), ",") {
		vs = append(vs, explore.Violation{Signature: "recovered-order-differs-from-reference", Detail: ""})
	}
	if v, want := viewAny(s), refView(kind, got); v != want {
		vs = append(vs, explore.Violation{Signature: "recovered-view-differs-from-reference", Detail: fmt.Sprintf("view %q, reference %q", v, want)})
	}
	// the peer can still write
	if err := writeAny(s, "post"); err != nil {
		vs = append(vs, explore.Violation{Signature: "write-after-recovery-failed", Detail: err.Error()})
	} else if !strings.Contains(viewAny(s), "post") {
		vs = append(vs, explore.Violation{Signature: "write-after-recovery-invisible", Detail: viewAny(s)})
	}
	return vs
}

func short4(h string) string {
	if len(h) > 8 {
		return ".." + h[len(h)-6:]
	}
	return h
}

// withFailingPut runs f while every cache write of the peer to a key ending in suffix fails (a storage fault at
// exactly that step; everything else works).
func withFailingPut(net *sim.Net, peer, suffix string, f func()) {
	net.Gates.Enable(func(kind, p, key, caller string) bool {
		return kind == "cache.put" && p == peer && strings.HasSuffix(key, suffix)
	})
	call := async("faulty step", func() error { f(); return nil })
	for i := 0; i < 100; i++ {
		_ = sim.Quiesce()
		parked := net.Gates.Parked()
		if len(parked) == 0 && call.finished() {
			break
		}
		for _, l := range parked {
			_ = net.Gates.Release(l, sim.AnswerFail)
		}
	}
	net.Gates.Enable(nil)
	net.Gates.ReleaseAll()
	_ = sim.Quiesce()
}

func crashHistories(depth int) []crashHistory {
	return crashHistoriesOver(depth, []string{"w", "aw", "sync", "snap", "bw", "syncb"})
}

func crashHistoriesOver(depth int, alpha []string) []crashHistory {
	var out []crashHistory
	var rec func(prefix []string)
	rec = func(prefix []string) {
		if len(prefix) == depth {
			for _, k := range []string{"eventlog", "keyvalue", "docstore"} {
				out = append(out, crashHistory{kind: k, actions: append([]string{}, prefix...)})
			}
			return
		}
		for _, a := range alpha {
			// prune histories that cannot differ from shorter ones: sync before any remote write
			rec(append(prefix, a))
		}
	}
	rec(nil)
	return out
}

// runDiskCycles: clean close/reopen cycles on real on-disk directories (real leveldb cache and keystore).
func runDiskCycles(kind string, cycles int, remote bool) (string, []explore.Violation) {
	return runDiskCyclesOpts(kind, cycles, remote, false)
}

// runDiskCyclesOpts: with shared, the process holds a second database and opens both with ONE options value
// after every restart; both must recover their own acknowledged entries.
func runDiskCyclesOpts(kind string, cycles int, remote, shared bool) (string, []explore.Violation) {
	dir, err := os.MkdirTemp("", "verif-c05-")
	if err != nil {
		return "harness: " + err.Error(), nil
	}
	defer os.RemoveAll(dir)
	net := sim.NewNet()
	net.PubSub.AutoDeliver = true
	rPeer, aPeer := net.AddPeer("R"), net.AddPeer("A")
	A, err := aPeer.Start(nil)
	if err != nil {
		return "harness: " + err.Error(), nil
	}
	defer func() { _ = A.Close(); _ = sim.Quiesce() }()
	open := func() (iface.OrbitDB, error) {
		return orbitdb.NewOrbitDB(bg, rPeer.API(), &orbitdb.NewOrbitDBOptions{Directory: &dir,
			DirectChannelFactory: net.PubSub.DirectChannelFactory(rPeer), PubSub: net.PubSub.PubSubFor(rPeer)})
	}
	db, err := open()
	if err != nil {
		return "harness: " + err.Error(), nil
	}
	identity := db.Identity().ID
	ac := accesscontroller.NewEmptyManifestParams()
	ac.SetAccess("write", []string{identity, A.DB.Identity().ID})
	s, err := db.Create(bg, "db", kind, &orbitdb.CreateDBOptions{AccessController: ac, Replicate: boolp(false)})
	if err != nil {
		return "harness: " + err.Error(), nil
	}
	addr := s.Address().String()
	sa, err := A.DB.Open(bg, addr, &orbitdb.CreateDBOptions{Replicate: boolp(false)})
	if err != nil {
		return "harness: " + err.Error(), nil
	}
	var s2 iface.Store
	addr2 := ""
	acked2 := map[string]bool{}
	if shared {
		ac2 := accesscontroller.NewEmptyManifestParams()
		ac2.SetAccess("write", []string{identity})
		if s2, err = db.Create(bg, "other", kind, &orbitdb.CreateDBOptions{AccessController: ac2, Replicate: boolp(false)}); err != nil {
			return "harness: " + err.Error(), nil
		}
		addr2 = s2.Address().String()
	}
	var vs []explore.Violation
	acked := map[string]bool{}
	for c := 0; c < cycles; c++ {
		if shared {
			if err := writeAny(s2, fmt.Sprintf("o%d", c)); err != nil {
				vs = append(vs, explore.Violation{Signature: "disk-write-failed", Detail: "second database: " + err.Error()})
			} else {
				acked2[s2.OpLog().Heads().Slice()[0].GetHash().String()] = true
			}
		}
		if err := writeAny(s, fmt.Sprintf("r%d", c)); err != nil {
			vs = append(vs, explore.Violation{Signature: "disk-write-failed", Detail: err.Error()})
		} else {
			acked[s.OpLog().Heads().Slice()[0].GetHash().String()] = true
		}
		if remote {
			_ = writeAny(sa, fmt.Sprintf("a%d", c))
			hs, _ := WireCopy(addr, sa.OpLog().Heads().Slice())
			_ = s.Sync(bg, hs)
			_ = sim.Quiesce()
			for _, e := range sa.OpLog().GetEntries().Slice() {
				if _, ok := s.OpLog().Get(e.GetHash()); ok {
					acked[e.GetHash().String()] = true
				}
			}
		}
		before := viewAny(s)
		_ = db.Close()
		_ = sim.Quiesce()
		if db, err = open(); err != nil {
			return "reopen failed", append(vs, explore.Violation{Signature: "disk-reopen-failed", Detail: err.Error()})
		}
		if db.Identity().ID != identity {
			vs = append(vs, explore.Violation{Signature: "identity-changed-across-restart", Detail: fmt.Sprintf("cycle %d", c)})
		}
		oneOpts := &orbitdb.CreateDBOptions{Replicate: boolp(false)}
		if s, err = db.Open(bg, addr, oneOpts); err != nil {
			return "reopen failed", append(vs, explore.Violation{Signature: "disk-open-failed", Detail: err.Error()})
		}
		if err := s.Load(bg, -1); err != nil {
			vs = append(vs, explore.Violation{Signature: "disk-load-failed", Detail: err.Error()})
		}
		_ = sim.Quiesce()
		if shared {
			before2 := viewAny(s2)
			if s2, err = db.Open(bg, addr2, oneOpts); err != nil {
				return "reopen failed", append(vs, explore.Violation{Signature: "disk-open-failed", Detail: "second database: " + err.Error()})
			}
			if err := s2.Load(bg, -1); err != nil {
				vs = append(vs, explore.Violation{Signature: "disk-load-failed", Detail: "second database: " + err.Error()})
			}
			_ = sim.Quiesce()
			for h := range acked2 {
				if _, ok := s2.OpLog().Get(mustCid(h)); !ok {
					vs = append(vs, explore.Violation{Signature: "acknowledged-entry-lost-after-clean-restart", Detail: fmt.Sprintf("cycle %d, second database opened with the same options value: %s", c, short4(h))})
				}
			}
			if after2 := viewAny(s2); after2 != before2 {
				vs = append(vs, explore.Violation{Signature: "state-differs-after-clean-restart", Detail: fmt.Sprintf("cycle %d, second database: %q -> %q", c, before2, after2)})
			}
		}
		for h := range acked {
			found := false
			for _, e := range s.OpLog().GetEntries().Slice() {
				if e.GetHash().String() == h {
					found = true
				}
			}
			if !found {
				vs = append(vs, explore.Violation{Signature: "acknowledged-entry-lost-after-clean-restart", Detail: fmt.Sprintf("cycle %d: %s", c, short4(h))})
			}
		}
		if after := viewAny(s); after != before {
			vs = append(vs, explore.Violation{Signature: "state-differs-after-clean-restart", Detail: fmt.Sprintf("cycle %d: %q -> %q", c, before, after)})
		}
	}
	_ = db.Close()
	_ = sim.Quiesce()
	return fmt.Sprintf("cycles=%d", cycles), vs
}

func init() {
	explore.Register(&explore.CheckDef{
		ID: "C05", Level: "model_checking",
		Rule: "all histories of length <= depth over {local write, write by remote A, sync of A's heads, snapshot save, write by remote B, sync of B's heads} on replica R, for the three store types; for every history the ordered effect log of R (block writes including fetched blocks, cache puts, keystore puts) with acknowledgement markers (write returned, replicated event emitted) is recorded and for EVERY prefix of it (deduplicated by content) a recovered, isolated world is built, the database opened and loaded; oracle: recovered entries include every acknowledged entry, only written entries, closed under ancestry, order and view equal the reference over the recovered set, identity unchanged, a new write succeeds. Storage faults: histories of length <= 3 (thorough 4) in which the write of `_localHeads` during a local write or of `_remoteHeads` during a merge fails (a write is acknowledged only if its call returned no error), same crash-prefix enumeration. Crashes while several goroutines write: every interleaving of two concurrent writers at the write path's schedule points (three store types; thorough also three writers, <= 3 deviations), and for each schedule every prefix of the effect log it produced, same oracle. Plus clean close/reopen cycles (1-3, with and without replication, also with two databases opened through one options value) on real leveldb directories. states = distinct crash images, transitions = recoveries. Non-trivial = crash points strictly inside an action (not at a quiescent boundary).",
		Units: func(tier string) []explore.Unit {
			n := 16
			if tier == "thorough" {
				n = 48
			}
			u := explore.ChunkUnits("crash-"+tier, n)
			u = append(u, explore.ChunkUnits("disk-"+tier, 3)...)
			// storage faults: histories in which the write of a cached head list fails
			u = append(u, explore.ChunkUnits("fault-"+tier, 4)...)
			// crashes while several goroutines write: every interleaving of two writers at the write path's schedule
			// points, and for each one every prefix of the effect log it produced
			for _, k := range []string{"eventlog", "keyvalue-same", "docstore-same"} {
				for _, x := range c17Units(C17Arg{Kind: k, N: 2, Per: 1, Bound: -1}, 4) {
					x.Arg, x.Name = "X"+x.Arg, "crash-during-"+x.Name
					u = append(u, x)
				}
			}
			// a writer against a replication merge on a replica that already holds replicated entries: the merge of
			// a third writer's entry may start at any schedule point of the write
			for _, k := range []string{"eventlog", "keyvalue-same"} {
				for _, x := range c17Units(C17Arg{Kind: k, N: 1, Per: 1, Bound: -1, Merge: 1, Pre: 1}, 2) {
					x.Arg, x.Name = "X"+x.Arg, "crash-during-"+x.Name
					u = append(u, x)
				}
			}
			if tier == "thorough" {
				for _, x := range c17Units(C17Arg{Kind: "eventlog", N: 3, Per: 1, Bound: 3}, 16) {
					x.Arg, x.Name = "X"+x.Arg, "crash-during-"+x.Name
					u = append(u, x)
				}
			}
			return u
		},
		Budget: func(tier string) float64 {
			if tier == "thorough" {
				return 1500
			}
			return 200
		},
		RunUnit: func(c *explore.Ctx) {
			if strings.HasPrefix(c.Spec.Unit.Arg, "X") {
				runC05Concurrent(c, c.Spec.Unit.Arg[1:])
				return
			}
			prefix, i, n := explore.ParseChunk(c.Spec.Unit.Arg)
			var cases []explore.Case
			if strings.HasPrefix(prefix, "disk-") {
				for _, k := range []string{"eventlog", "keyvalue", "docstore"} {
					for cyc := 1; cyc <= 3; cyc++ {
						for _, remote := range []bool{false, true} {
							k, cyc, remote := k, cyc, remote
							cases = append(cases, explore.Case{ID: fmt.Sprintf("disk %s cycles=%d remote=%v", k, cyc, remote), Nontrivial: remote,
								Run: func() (string, []explore.Violation) { return runDiskCycles(k, cyc, remote) }})
							cases = append(cases, explore.Case{ID: fmt.Sprintf("disk %s cycles=%d remote=%v two databases opened with one options value", k, cyc, remote), Nontrivial: true,
								Run: func() (string, []explore.Violation) { return runDiskCyclesOpts(k, cyc, remote, true) }})
						}
					}
				}
			} else if strings.HasPrefix(prefix, "fault-") {
				depth := 3
				if strings.HasSuffix(prefix, "thorough") {
					depth = 4
				}
				seen := map[uint64]bool{}
				for _, h := range crashHistoriesOver(depth, []string{"w", "wf", "aw", "sync", "syncf"}) {
					h := h
					faults := 0
					for _, a := range h.actions {
						if a == "wf" || a == "syncf" {
							faults++
						}
					}
					if faults == 0 {
						continue // covered by the fault-free family
					}
					cases = append(cases, explore.Case{ID: fmt.Sprintf("crash %s %v", h.kind, h.actions), Nontrivial: true,
						Run: func() (string, []explore.Violation) { return runCrashHistory(h, seen, c.Stats) }})
				}
			} else {
				depth := 4
				if strings.HasSuffix(prefix, "thorough") {
					depth = 5
				}
				seen := map[uint64]bool{}
				for d := 1; d <= depth; d++ {
					if d < depth && d > 1 {
						continue // shorter histories' crash images are prefixes of the longer ones'
					}
					for _, h := range crashHistories(d) {
						h := h
						cases = append(cases, explore.Case{ID: fmt.Sprintf("crash %s %v", h.kind, h.actions), Nontrivial: true,
							Run: func() (string, []explore.Violation) { return runCrashHistory(h, seen, c.Stats) }})
					}
				}
			}
			explore.RunCases(c, "C05", cases, i, n)
			c.Stats.Transitions += c.Stats.Counters["recoveries"]
		},
		Assumptions: []string{
			"every persistence effect is durable and atomic once its call returns (torn writes are excluded by the property); the crash image after effect k is exactly the first k effects",
			"crash-point enumeration uses the simulated cache/keystore/blockstore (the seams where effects are issued); the on-disk part uses the real leveldb cache and keystore but only clean shutdowns",
		},
	})
}
