package scen

import (
	"bytes"
	"encoding/json"
	"fmt"
	"strings"

	"berty.tech/go-orbit-db/iface"
	"verifmc/explore"
)

// DFSArg is the unit argument of a sharded writer-world search.
type DFSArg struct {
	Kind     string `json:"kind"`
	Writers  int    `json:"writers"`
	Depth    int    `json:"depth"`
	Alpha    string `json:"alpha"`
	Shards   int    `json:"shards"`
	Shard    int    `json:"shard"`
	Dup      bool   `json:"dup"`
	SD       int    `json:"sd"`       // shard depth (default 2)
	Restart  bool   `json:"restart"`  // also offer restart + Load(-1) of every replica
	SnapLive bool   `json:"snaplive"` // also offer saving a snapshot and loading it later on the running store
	Fault    bool   `json:"fault"`    // also offer merges during which the write of the cached remote heads fails
}

func (a DFSArg) Name() string {
	r := ""
	if a.Restart {
		r = "+restart"
	}
	if a.SnapLive {
		r += "+snapshot-on-running-store"
	}
	if a.Fault {
		r += "+faulty-merges"
	}
	return fmt.Sprintf("%s/w%d/d%d/%s%s/shard%d.%d", a.Kind, a.Writers, a.Depth, a.Alpha, r, a.Shard, a.Shards)
}

func shardUnits(base DFSArg, shards int) []explore.Unit {
	var out []explore.Unit
	for s := 0; s < shards; s++ {
		a := base
		a.Shards, a.Shard = shards, s
		b, _ := json.Marshal(a)
		out = append(out, explore.Unit{Name: a.Name(), Arg: string(b)})
	}
	return out
}

func kvPut(k, v string) WOp {
	return WOp{Name: fmt.Sprintf("put(%q,%q)", k, v), Do: func(s iface.Store) error {
		_, err := s.(iface.KeyValueStore).Put(bg, k, []byte(v))
		return err
	}}
}
func kvDel(k string) WOp {
	return WOp{Name: fmt.Sprintf("del(%q)", k), Do: func(s iface.Store) error {
		_, err := s.(iface.KeyValueStore).Delete(bg, k)
		return err
	}}
}

// KVAlphabet returns the named operation alphabet, simplest first.
func KVAlphabet(name string) []WOp {
	switch name {
	case "core": // two colliding keys, two values, deletes
		return []WOp{kvPut("a", "1"), kvPut("a", "2"), kvDel("a"), kvPut("b", "1"), kvDel("b")}
	case "tiny":
		return []WOp{kvPut("a", "1"), kvPut("a", "2"), kvDel("a")}
	case "twokeys": // two keys that can be written concurrently, one value each, a delete
		return []WOp{kvPut("a", "1"), kvPut("b", "2"), kvDel("a")}
	case "values": // value and key shapes: empty, binary, unicode keys
		return []WOp{kvPut("a", "1"), kvPut("a", ""), kvPut("a", "\x00\xff"), kvDel("a"),
			kvPut("ü/é", "2"), kvPut("ü/é", ""), kvDel("ü/é"), kvPut("b", "\x00\xff"), kvDel("b")}
	}
	panic("unknown kv alphabet " + name)
}

var kvProbeKeys = []string{"a", "b", "ü/é", "zz"}

// OracleKV: Get/All equal the last-writer-wins replay of Values(); Values() extends happens-before.
func OracleKV(prop string) func(w *Writers, hist []string) []explore.Violation {
	return func(w *Writers, hist []string) []explore.Violation {
		var out []explore.Violation
		for i, s := range w.Stores {
			kv := s.(iface.KeyValueStore)
			vals := s.OpLog().Values().Slice()
			if msg := Causal(vals); msg != "" {
				out = append(out, explore.Violation{Property: prop, Signature: "order-not-causal", Detail: fmt.Sprintf("replica %d: %s; order=%v", i, msg, w.EIDs(vals))})
			}
			ref, err := RefKV(vals)
			if err != nil {
				out = append(out, explore.Violation{Property: prop, Signature: "unparsable-entry", Detail: err.Error()})
				continue
			}
			all := kv.All()
			if !sameKV(ref, all) {
				out = append(out, explore.Violation{Property: prop, Signature: "kv-all-differs-from-replay",
					Detail: fmt.Sprintf("replica %d: All()=%s replay=%s order=%v", i, kvString(all), kvString(ref), w.EIDs(vals))})
			}
			for _, k := range kvProbeKeys {
				got, err := kv.Get(bg, k)
				if err != nil {
					out = append(out, explore.Violation{Property: prop, Signature: "kv-get-error", Detail: err.Error()})
					continue
				}
				want, present := ref[k]
				if !bytes.Equal(got, want) || (present && len(want) > 0 && got == nil) {
					out = append(out, explore.Violation{Property: prop, Signature: "kv-get-differs-from-replay",
						Detail: fmt.Sprintf("replica %d: Get(%q)=%q replay=%q (present=%v) order=%v", i, k, got, want, present, w.EIDs(vals))})
				}
			}
		}
		return out
	}
}

func sameKV(a, b map[string][]byte) bool {
	if len(a) != len(b) {
		return false
	}
	for k, v := range a {
		w, ok := b[k]
		if !ok || !bytes.Equal(v, w) {
			return false
		}
	}
	return true
}

// nontrivialMerged: some replica holds entries of at least two writers (a real merge happened).
func nontrivialMerged(hist []string, w explore.World) bool {
	ww := w.(*Writers)
	for i := range ww.Stores {
		k := ww.SetKey(i)
		if strings.Contains(k, "W0@") && strings.Contains(k, "W1@") {
			return true
		}
	}
	return false
}

func runWritersDFS(c *explore.Ctx, prop string, ops func(a DFSArg) []WOp, setup func(w *Writers, a DFSArg)) {
	var a DFSArg
	if err := json.Unmarshal([]byte(c.Spec.Unit.Arg), &a); err != nil {
		c.Stats.HarnessErrs = append(c.Stats.HarnessErrs, err.Error())
		return
	}
	mem := NewMemory()
	sd := a.SD
	if sd == 0 {
		sd = 2
	}
	if sd > a.Depth {
		sd = a.Depth
	}
	d := &explore.DFS{
		Scenario: a.Name(), Space: fmt.Sprintf("%s/w%d/%s/restart=%v/snaplive=%v/fault=%v", a.Kind, a.Writers, a.Alpha, a.Restart, a.SnapLive, a.Fault),
		New: func() (explore.World, error) {
			w, err := NewWriters(a.Kind, a.Writers, ops(a))
			if err != nil {
				return nil, err
			}
			w.Mem = mem
			w.Dup = a.Dup
			w.Reload = a.Restart
			w.SnapshotLive = a.SnapLive
			w.FaultyMerge = a.Fault
			setup(w, a)
			return w, nil
		},
		MaxDepth: a.Depth, ShardDepth: sd, Shards: a.Shards, Shard: a.Shard,
		Stats: c.Stats, Journal: c.JournalHist, Poison: c.PoisonSet(), Nontrivial: nontrivialMerged, Expired: c.Expired,
	}
	d.Run()
	for i := range c.Stats.Violations {
		if c.Stats.Violations[i].Property == "" {
			c.Stats.Violations[i].Property = prop
		}
	}
}

func init() {
	explore.Register(&explore.CheckDef{
		ID: "C06", Level: "model_checking",
		Rule: "explicit-state DFS (replay on fresh real instances, visited-state pruning) over all sequences of Put/Delete by each writer and merge(i<-j) actions (one unit also offers restart + Load of any replica, one offers merges during which the write of the cached remote heads fails) up to the depth bound; oracle after every step on every replica: Get/All == last-writer-wins replay of OpLog().Values(), and Values() lists every entry after its ancestors. Non-trivial = distinct states in which some replica holds entries of two writers.",
		Units: func(tier string) []explore.Unit {
			if tier == "thorough" {
				u := shardUnits(DFSArg{Kind: "keyvalue", Writers: 2, Depth: 5, Alpha: "core"}, 48)
				u = append(u, shardUnits(DFSArg{Kind: "keyvalue", Writers: 3, Depth: 4, Alpha: "tiny", Dup: true}, 32)...)
				u = append(u, shardUnits(DFSArg{Kind: "keyvalue", Writers: 1, Depth: 4, Alpha: "values"}, 16)...)
				u = append(u, shardUnits(DFSArg{Kind: "keyvalue", Writers: 2, Depth: 5, Alpha: "tiny", Restart: true}, 32)...)
				return u
			}
			u := shardUnits(DFSArg{Kind: "keyvalue", Writers: 2, Depth: 5, Alpha: "tiny", Dup: true}, 32)
			u = append(u, shardUnits(DFSArg{Kind: "keyvalue", Writers: 2, Depth: 4, Alpha: "core"}, 32)...)
			u = append(u, shardUnits(DFSArg{Kind: "keyvalue", Writers: 3, Depth: 3, Alpha: "tiny"}, 16)...)
			u = append(u, shardUnits(DFSArg{Kind: "keyvalue", Writers: 1, Depth: 3, Alpha: "values"}, 8)...)
			u = append(u, shardUnits(DFSArg{Kind: "keyvalue", Writers: 2, Depth: 4, Alpha: "tiny", Restart: true}, 16)...)
			u = append(u, shardUnits(DFSArg{Kind: "keyvalue", Writers: 2, Depth: 4, Alpha: "twokeys", Fault: true}, 8)...)
			return u
		},
		Budget: func(tier string) float64 {
			if tier == "thorough" {
				return 1500
			}
			return 400
		},
		RunUnit: func(c *explore.Ctx) {
			runWritersDFS(c, "C06", func(a DFSArg) []WOp { return KVAlphabet(a.Alpha) }, func(w *Writers, a DFSArg) {
				w.Oracles = append(w.Oracles, OracleKV("C06"))
			})
		},
		Assumptions: []string{
			"environment (IPFS DAG, cache, keystore) is the deterministic simulation in /verif/mc/sim; merges are Sync calls with wire-format copies of the other replica's heads",
			"stretches between quiescent points run on the Go scheduler and are assumed confluent (checked by comparing state keys on every prefix replay)",
			"each identity writes through a single live store (no equal (time, writer) pairs)",
		},
	})
}
