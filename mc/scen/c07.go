package scen

import (
	"encoding/json"
	"fmt"
	"sort"
	"strings"

	"berty.tech/go-orbit-db/iface"
	"verifmc/explore"
)

func doc(k string, v int) map[string]interface{} { return map[string]interface{}{"_id": k, "v": v} }

func docPut(k string, v int) WOp {
	return WOp{Name: fmt.Sprintf("put(%s,%d)", k, v), Do: func(s iface.Store) error {
		_, err := s.(iface.DocumentStore).Put(bg, doc(k, v))
		return err
	}}
}
func docDel(k string) WOp {
	return WOp{Name: fmt.Sprintf("del(%s)", k), Do: func(s iface.Store) error {
		_, err := s.(iface.DocumentStore).Delete(bg, k)
		return err
	}, Refused: func(w *Writers, i int) bool {
		ref, _ := RefDocs(w.Stores[i].OpLog().Values().Slice())
		_, ok := ref[k]
		return !ok
	}}
}
func docPutAll(v int, ks ...string) WOp {
	return WOp{Name: fmt.Sprintf("putall(%s,%d)", strings.Join(ks, "+"), v), Do: func(s iface.Store) error {
		var ds []interface{}
		for _, k := range ks {
			ds = append(ds, doc(k, v))
		}
		_, err := s.(iface.DocumentStore).PutAll(bg, ds)
		return err
	}}
}
func docPutBatch(v int, ks ...string) WOp {
	return WOp{Name: fmt.Sprintf("putbatch(%s,%d)", strings.Join(ks, "+"), v), Do: func(s iface.Store) error {
		var ds []interface{}
		for _, k := range ks {
			ds = append(ds, doc(k, v))
		}
		_, err := s.(iface.DocumentStore).PutBatch(bg, ds)
		return err
	}}
}

func DocAlphabet(name string) []WOp {
	switch name {
	case "core":
		return []WOp{docPut("a", 1), docPutAll(2, "a"), docDel("a"), docPut("a", 2), docPutAll(1, "a", "A"), docPutBatch(2, "A", "ab"), docDel("zz")}
	case "tiny":
		return []WOp{docPut("a", 1), docPutAll(2, "a"), docDel("a")}
	case "twokeys":
		return []WOp{docPut("a", 1), docPutAll(2, "b"), docDel("a")}
	case "batch": // a batch of two documents, then single operations on its first-listed and last-listed member
		return []WOp{docPutAll(1, "a", "b"), docPut("a", 2), docDel("b"), docPut("b", 3)}
	case "keys":
		return []WOp{docPut("a", 1), docPut("A", 2), docPut("ab", 1), docPut("a.b-1", 2), docPutAll(1, "a.b-1", "ab"), docDel("A"), docDel("a.b-1"), docPutBatch(2, "a", "A")}
	}
	panic("unknown doc alphabet " + name)
}

var docSearches = []string{"a", "A", "ab", "a.b-1", "B", "zz", ".", "b-"}

func docMatch(key, search string, ci, partial bool) bool {
	if ci {
		key, search = strings.ToLower(key), strings.ToLower(search)
	}
	if partial {
		return strings.Contains(key, search)
	}
	return key == search
}

func docsMultiset(ds []interface{}) string {
	var out []string
	for _, d := range ds {
		b, _ := json.Marshal(d) // map keys are sorted by encoding/json
		out = append(out, string(b))
	}
	sort.Strings(out)
	return strings.Join(out, " ")
}

func refMultiset(ref map[string][]byte, pred func(k string, raw []byte) bool) string {
	var out []string
	for k, raw := range ref {
		if !pred(k, raw) {
			continue
		}
		var m map[string]interface{}
		_ = json.Unmarshal(raw, &m)
		b, _ := json.Marshal(m)
		out = append(out, string(b))
	}
	sort.Strings(out)
	return strings.Join(out, " ")
}

// OracleDocs: Get (all option combinations) and Query equal the matching documents of the replayed state.
func OracleDocs(prop string) func(w *Writers, hist []string) []explore.Violation {
	return func(w *Writers, hist []string) []explore.Violation {
		var out []explore.Violation
		for i, s := range w.Stores {
			ds := s.(iface.DocumentStore)
			vals := s.OpLog().Values().Slice()
			if msg := Causal(vals); msg != "" {
				out = append(out, explore.Violation{Property: prop, Signature: "order-not-causal", Detail: msg})
			}
			ref, err := RefDocs(vals)
			if err != nil {
				out = append(out, explore.Violation{Property: prop, Signature: "unparsable-entry", Detail: err.Error()})
				continue
			}
			order := fmt.Sprintf("%v", w.describe(vals))
			type pred struct {
				name string
				f    func(doc map[string]interface{}) bool
			}
			preds := []pred{
				{"true", func(map[string]interface{}) bool { return true }},
				{"false", func(map[string]interface{}) bool { return false }},
				{"v==1", func(d map[string]interface{}) bool { v, _ := d["v"].(float64); return v == 1 }},
				{"id~a", func(d map[string]interface{}) bool { id, _ := d["_id"].(string); return strings.Contains(id, "a") }},
			}
			for _, p := range preds {
				got, err := ds.Query(bg, func(d interface{}) (bool, error) {
					m, _ := d.(map[string]interface{})
					return p.f(m), nil
				})
				if err != nil {
					out = append(out, explore.Violation{Property: prop, Signature: "doc-query-error", Detail: err.Error()})
					continue
				}
				want := refMultiset(ref, func(k string, raw []byte) bool {
					var m map[string]interface{}
					_ = json.Unmarshal(raw, &m)
					return p.f(m)
				})
				if g := docsMultiset(got); g != want {
					out = append(out, explore.Violation{Property: prop, Signature: "doc-query-differs-from-replay:" + lastOpClass(vals),
						Detail: fmt.Sprintf("replica %d: Query(%s)=%s replay=%s log=%s", i, p.name, g, want, order)})
				}
			}
			for _, srch := range docSearches {
				for _, ci := range []bool{false, true} {
					for _, partial := range []bool{false, true} {
						got, err := ds.Get(bg, srch, &iface.DocumentStoreGetOptions{CaseInsensitive: ci, PartialMatches: partial})
						if err != nil {
							out = append(out, explore.Violation{Property: prop, Signature: "doc-get-error", Detail: err.Error()})
							continue
						}
						want := refMultiset(ref, func(k string, _ []byte) bool { return docMatch(k, srch, ci, partial) })
						if g := docsMultiset(got); g != want {
							out = append(out, explore.Violation{Property: prop, Signature: fmt.Sprintf("doc-get-differs-from-replay:%s", lastOpClass(vals)),
								Detail: fmt.Sprintf("replica %d: Get(%q,ci=%v,partial=%v)=%s replay=%s log=%s", i, srch, ci, partial, g, want, order)})
						}
					}
				}
			}
		}
		return out
	}
}

// lastOpClass names the kind of the operation that should have won for the first key on which the
// view and the replay can differ: the newest operation in the log (used only to label findings).
func lastOpClass(vals []interfaceEntry) string {
	if len(vals) == 0 {
		return "empty"
	}
	return opClass(PayloadDigest(vals[len(vals)-1]))
}

func (w *Writers) describe(vals []interfaceEntry) []string {
	out := make([]string, len(vals))
	for i, e := range vals {
		out[i] = w.EID(e) + ":" + PayloadDigest(e)
	}
	return out
}

func init() {
	explore.Register(&explore.CheckDef{
		ID: "C07", Level: "model_checking",
		Rule: "explicit-state DFS over all sequences of Put/PutAll/PutBatch/Delete (overlapping mixed-case keys, delete of an absent key) by each writer and merge(i<-j) actions up to the depth bound; after every step on every replica, Query (4 predicates) and Get (8 search keys x 4 option combinations) must equal, as multisets, the matching documents of the last-writer-wins replay of Values() where a batch member counts as a put at the batch's position; Delete of an absent key must be refused and append nothing. Non-trivial = distinct states in which some replica holds entries of two writers.",
		Units: func(tier string) []explore.Unit {
			if tier == "thorough" {
				u := shardUnits(DFSArg{Kind: "docstore", Writers: 2, Depth: 4, Alpha: "core"}, 64)
				u = append(u, shardUnits(DFSArg{Kind: "docstore", Writers: 3, Depth: 4, Alpha: "tiny"}, 48)...)
				u = append(u, shardUnits(DFSArg{Kind: "docstore", Writers: 1, Depth: 4, Alpha: "keys"}, 16)...)
				u = append(u, shardUnits(DFSArg{Kind: "docstore", Writers: 2, Depth: 5, Alpha: "tiny", Restart: true}, 32)...)
				u = append(u, explore.ChunkUnits("typed", 8)...)
				return u
			}
			u := shardUnits(DFSArg{Kind: "docstore", Writers: 2, Depth: 3, Alpha: "core"}, 32)
			u = append(u, shardUnits(DFSArg{Kind: "docstore", Writers: 2, Depth: 4, Alpha: "tiny"}, 16)...)
			u = append(u, shardUnits(DFSArg{Kind: "docstore", Writers: 1, Depth: 3, Alpha: "keys"}, 8)...)
			u = append(u, shardUnits(DFSArg{Kind: "docstore", Writers: 2, Depth: 4, Alpha: "tiny", Restart: true}, 16)...)
			u = append(u, shardUnits(DFSArg{Kind: "docstore", Writers: 2, Depth: 3, Alpha: "twokeys", Fault: true}, 8)...)
			u = append(u, explore.ChunkUnits("typed", 4)...)
			return u
		},
		Budget: func(tier string) float64 {
			if tier == "thorough" {
				return 1500
			}
			return 150
		},
		RunUnit: func(c *explore.Ctx) {
			if strings.HasPrefix(c.Spec.Unit.Arg, "typed") {
				_, i, n := explore.ParseChunk(c.Spec.Unit.Arg)
				var cases []explore.Case
				depth := 3
				if c.Spec.Tier == "thorough" {
					depth = 4
				}
				for _, seq := range typedSequences(depth) {
					seq := seq
					cases = append(cases, explore.Case{ID: "typed " + strings.Join(seq, ";"), Nontrivial: len(seq) > 1, Run: func() (string, []explore.Violation) { return runC07Typed(seq) }})
				}
				explore.RunCases(c, "C07", cases, i, n)
				return
			}
			runWritersDFS(c, "C07", func(a DFSArg) []WOp { return DocAlphabet(a.Alpha) }, func(w *Writers, a DFSArg) {
				w.Oracles = append(w.Oracles, OracleDocs("C07"))
			})
		},
		Assumptions: []string{
			"environment is the deterministic simulation in /verif/mc/sim; documents are JSON maps keyed by _id (the store's default options), plus one family with typed documents decoded through a pointer-returning ItemFactory",
			"search keys containing spaces and empty document keys are excluded, as the property excludes them",
		},
	})
}
