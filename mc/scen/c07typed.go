package scen

import (
	"encoding/json"
	"fmt"
	"sort"
	"strings"

	orbitdb "berty.tech/go-orbit-db"
	"berty.tech/go-orbit-db/iface"
	"verifmc/explore"
	"verifmc/sim"
)

// Typed documents: the document store with store-specific options that decode into a struct through a
// pointer-returning ItemFactory (instead of the default map). Every sequence of up to three operations over a
// small alphabet; after every step Query(everything), Query(one field) and Get must return the matching
// documents of the replay, each as its own value.

type typedDoc struct {
	ID   string `json:"_id"`
	V    int    `json:"v"`
	Note string `json:"note,omitempty"`
}

func typedDocOpts() *iface.CreateDocumentDBOptions {
	return &iface.CreateDocumentDBOptions{
		KeyExtractor: func(i interface{}) (string, error) {
			d, ok := i.(*typedDoc)
			if !ok {
				return "", fmt.Errorf("not a typed document: %T", i)
			}
			return d.ID, nil
		},
		Marshal:     json.Marshal,
		Unmarshal:   json.Unmarshal,
		ItemFactory: func() interface{} { return &typedDoc{} },
	}
}

var typedOps = []string{"put a", "put b note", "put c", "put a v2", "del a", "batch b c"}

func typedSequences(depth int) [][]string {
	out := [][]string{}
	var rec func(p []string)
	rec = func(p []string) {
		if len(p) > 0 {
			out = append(out, append([]string{}, p...))
		}
		if len(p) == depth {
			return
		}
		for _, o := range typedOps {
			rec(append(p, o))
		}
	}
	rec(nil)
	return out
}

func runC07Typed(seq []string) (string, []explore.Violation) {
	id := "typed documents: " + strings.Join(seq, " ; ")
	var vs []explore.Violation
	net := sim.NewNet()
	inst, err := net.AddPeer("P").Start(nil)
	if err != nil {
		return "harness: " + err.Error(), nil
	}
	defer func() { _ = inst.Close(); _ = sim.Quiesce() }()
	st, err := inst.DB.Create(bg, "typed", "docstore", &orbitdb.CreateDBOptions{Replicate: boolp(false), StoreSpecificOpts: typedDocOpts()})
	if err != nil {
		return "harness: " + err.Error(), nil
	}
	ds := st.(iface.DocumentStore)
	ref := map[string]typedDoc{}
	render := func(docs []interface{}) []string {
		var l []string
		for _, d := range docs {
			if t, ok := d.(*typedDoc); ok {
				l = append(l, fmt.Sprintf("%s/%d/%s", t.ID, t.V, t.Note))
			} else {
				l = append(l, fmt.Sprintf("?%T", d))
			}
		}
		sort.Strings(l)
		return l
	}
	want := func(pred func(typedDoc) bool) []string {
		var l []string
		for _, d := range ref {
			if pred(d) {
				l = append(l, fmt.Sprintf("%s/%d/%s", d.ID, d.V, d.Note))
			}
		}
		sort.Strings(l)
		return l
	}
	for step, op := range seq {
		var oerr error
		switch op {
		case "put a":
			_, oerr = ds.Put(bg, &typedDoc{ID: "a", V: 1})
			ref["a"] = typedDoc{ID: "a", V: 1}
		case "put a v2":
			_, oerr = ds.Put(bg, &typedDoc{ID: "a", V: 2})
			ref["a"] = typedDoc{ID: "a", V: 2}
		case "put b note":
			_, oerr = ds.Put(bg, &typedDoc{ID: "b", V: 1, Note: "n"})
			ref["b"] = typedDoc{ID: "b", V: 1, Note: "n"}
		case "put c":
			_, oerr = ds.Put(bg, &typedDoc{ID: "c", V: 3})
			ref["c"] = typedDoc{ID: "c", V: 3}
		case "del a":
			_, derr := ds.Delete(bg, "a")
			if _, held := ref["a"]; !held {
				if derr == nil {
					vs = append(vs, explore.Violation{Signature: "delete-of-absent-key-accepted:typed", Detail: id})
				}
			} else {
				oerr = derr
			}
			delete(ref, "a")
		case "batch b c":
			_, oerr = ds.PutBatch(bg, []interface{}{&typedDoc{ID: "b", V: 5}, &typedDoc{ID: "c", V: 6}})
			ref["b"], ref["c"] = typedDoc{ID: "b", V: 5}, typedDoc{ID: "c", V: 6}
		}
		if oerr != nil {
			return "harness: " + op + ": " + oerr.Error(), vs
		}
		_ = sim.Quiesce()
		all, err := ds.Query(bg, func(interface{}) (bool, error) { return true, nil })
		if err != nil {
			vs = append(vs, explore.Violation{Signature: "doc-query-error:typed", Detail: id + ": " + err.Error()})
			continue
		}
		if g, w := strings.Join(render(all), ","), strings.Join(want(func(typedDoc) bool { return true }), ","); g != w {
			vs = append(vs, explore.Violation{Signature: "doc-query-differs-from-replay:typed", Detail: fmt.Sprintf("%s (after step %d): Query(all) = [%s], replay = [%s]", id, step+1, g, w)})
		}
		big, _ := ds.Query(bg, func(d interface{}) (bool, error) { t, ok := d.(*typedDoc); return ok && t.V >= 3, nil })
		if g, w := strings.Join(render(big), ","), strings.Join(want(func(d typedDoc) bool { return d.V >= 3 }), ","); g != w {
			vs = append(vs, explore.Violation{Signature: "doc-query-differs-from-replay:typed", Detail: fmt.Sprintf("%s (after step %d): Query(v>=3) = [%s], replay = [%s]", id, step+1, g, w)})
		}
		part, _ := ds.Get(bg, "", &iface.DocumentStoreGetOptions{PartialMatches: true})
		if g, w := strings.Join(render(part), ","), strings.Join(want(func(typedDoc) bool { return true }), ","); g != w {
			vs = append(vs, explore.Violation{Signature: "doc-get-differs-from-replay:typed", Detail: fmt.Sprintf("%s (after step %d): Get(\"\", partial) = [%s], replay = [%s]", id, step+1, g, w)})
		}
	}
	return "ok", vs
}
