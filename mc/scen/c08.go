package scen

import (
	"math"
	"fmt"
	"sort"
	"strings"

	ipfslog "berty.tech/go-ipfs-log"
	"berty.tech/go-orbit-db/iface"
	"berty.tech/go-orbit-db/stores/operation"
	cid "github.com/ipfs/go-cid"
	"verifmc/explore"
)

func logAdd(v string) WOp {
	return WOp{Name: fmt.Sprintf("add(%q)", v), Do: func(s iface.Store) error {
		_, err := s.(iface.EventLogStore).Add(bg, []byte(v))
		return err
	}}
}

func LogAlphabet(name string) []WOp {
	switch name {
	case "one":
		return []WOp{logAdd("x")}
	case "two":
		return []WOp{logAdd("x"), logAdd("")}
	}
	panic("unknown log alphabet")
}

func opHashes(ops []operation.Operation) []string {
	out := make([]string, len(ops))
	for i, o := range ops {
		out[i] = o.GetEntry().GetHash().String()
	}
	return out
}

func isSubsequence(old, cur []string) bool {
	j := 0
	for _, x := range cur {
		if j < len(old) && old[j] == x {
			j++
		}
	}
	return j == len(old)
}

func intp(i int) *int { return &i }

// window computes the expected result of a range query on listing L (oldest first).
// kind: "", "gt", "gte", "lt", "lte"; p = position of the bound; amount: nil = unset.
func window(n int, kind string, p int, amount *int) (lo, hi int) {
	a := 1
	all := false
	if amount != nil {
		if *amount < 0 {
			all = true
		} else {
			a = *amount
		}
	}
	if a > n {
		a = n // a window is never longer than the listing (and the sums below cannot overflow)
	}
	switch kind {
	case "gt", "gte":
		lo = p
		if kind == "gt" {
			lo = p + 1
		}
		hi = lo + a
		if all || hi > n {
			hi = n
		}
	case "lt", "lte", "":
		hi = n
		if kind == "lt" {
			hi = p
		} else if kind == "lte" {
			hi = p + 1
		}
		lo = hi - a
		if all || lo < 0 {
			lo = 0
		}
	}
	if lo > hi {
		lo = hi
	}
	return
}

// OracleEventLog: listing order, per-writer order, exact range windows, Get by address.
func OracleEventLog(prop string) func(w *Writers, hist []string) []explore.Violation {
	return func(w *Writers, hist []string) []explore.Violation {
		var out []explore.Violation
		for i, s := range w.Stores {
			el := s.(iface.EventLogStore)
			vals := s.OpLog().Values().Slice()
			full, err := el.List(bg, &iface.StreamOptions{Amount: intp(-1)})
			if err != nil {
				out = append(out, explore.Violation{Property: prop, Signature: "list-error", Detail: err.Error()})
				continue
			}
			L := opHashes(full)
			// listing == the log's total order
			if strings.Join(L, ",") != strings.Join(hashesOf(vals), ",") {
				out = append(out, explore.Violation{Property: prop, Signature: "listing-differs-from-log-order", Detail: fmt.Sprintf("replica %d", i)})
			}
			if msg := Causal(vals); msg != "" {
				out = append(out, explore.Violation{Property: prop, Signature: "listing-not-causal", Detail: fmt.Sprintf("replica %d: %s order=%v", i, msg, w.EIDs(vals))})
			}
			// each writer's own entries in the order it wrote them
			last := map[string]int{}
			for _, e := range vals {
				id := string(e.GetClock().GetID())
				if t, ok := last[id]; ok && e.GetClock().GetTime() <= t {
					out = append(out, explore.Violation{Property: prop, Signature: "writer-order-broken", Detail: fmt.Sprintf("replica %d order=%v", i, w.EIDs(vals))})
				}
				last[id] = e.GetClock().GetTime()
			}
			n := len(L)
			amounts := []*int{nil, intp(0), intp(1), intp(2), intp(n), intp(n + 3), intp(-1), intp(-2), intp(-3), intp(-n), intp(-n - 1), intp(math.MaxInt), intp(math.MaxInt - n), intp(math.MinInt)}
			type q struct {
				kind string
				p    int
			}
			qs := []q{{"", 0}}
			for p := 0; p < n; p++ {
				for _, k := range []string{"gt", "gte", "lt", "lte"} {
					qs = append(qs, q{k, p})
				}
			}
			for _, qq := range qs {
				for _, am := range amounts {
					opts := &iface.StreamOptions{Amount: am}
					if qq.kind != "" {
						c, _ := cid.Decode(L[qq.p])
						switch qq.kind {
						case "gt":
							opts.GT = &c
						case "gte":
							opts.GTE = &c
						case "lt":
							opts.LT = &c
						case "lte":
							opts.LTE = &c
						}
					}
					got, err := el.List(bg, opts)
					if err != nil {
						out = append(out, explore.Violation{Property: prop, Signature: "list-error", Detail: err.Error()})
						continue
					}
					G := opHashes(got)
					amS := "unset"
					if am != nil {
						amS = fmt.Sprint(*am)
					}
					if am != nil && *am == 0 {
						// the statement is silent on amount 0: accept any correctly anchored window of length <= 1
						lo0, hi0 := window(n, qq.kind, qq.p, intp(0))
						lo1, hi1 := window(n, qq.kind, qq.p, intp(1))
						if sameSlice(G, L[lo0:hi0]) || sameSlice(G, L[lo1:hi1]) {
							continue
						}
					} else {
						lo, hi := window(n, qq.kind, qq.p, am)
						if sameSlice(G, L[lo:hi]) {
							continue
						}
					}
					lo, hi := window(n, qq.kind, qq.p, am)
					out = append(out, explore.Violation{Property: prop, Signature: fmt.Sprintf("window-wrong:%s", qq.kind),
						Detail: fmt.Sprintf("replica %d: n=%d %s@%d amount=%s returned positions %v, expected [%d,%d)", i, n, qq.kind, qq.p, amS, positions(G, L), lo, hi)})
				}
			}
			for p := 0; p < n; p++ {
				c, _ := cid.Decode(L[p])
				op, err := el.Get(bg, c)
				if err != nil || op == nil || op.GetEntry().GetHash().String() != L[p] {
					out = append(out, explore.Violation{Property: prop, Signature: "get-by-address-wrong", Detail: fmt.Sprintf("replica %d: Get(entry at %d of %d): err=%v", i, p, n, err)})
				}
			}
		}
		return out
	}
}

func hashesOf(es []ipfslog.Entry) []string {
	out := make([]string, len(es))
	for i, e := range es {
		out[i] = e.GetHash().String()
	}
	return out
}

func sameSlice(a, b []string) bool {
	if len(a) != len(b) {
		return false
	}
	for i := range a {
		if a[i] != b[i] {
			return false
		}
	}
	return true
}

func positions(g, l []string) []int {
	out := make([]int, len(g))
	for i, x := range g {
		out[i] = -1
		for j, y := range l {
			if x == y {
				out[i] = j
			}
		}
	}
	return out
}

// stabilityObserver checks, around every action, that each replica's listing only grows and keeps the
// relative order of entries already listed.
func stabilityObserver(prop string) (before, after func(w *Writers, a string)) {
	before = func(w *Writers, a string) {
		prev := make([][]string, w.N)
		for i, s := range w.Stores {
			prev[i] = hashesOf(s.OpLog().Values().Slice())
		}
		w.Scratch["prev"] = prev
	}
	after = func(w *Writers, a string) {
		prev, _ := w.Scratch["prev"].([][]string)
		for i, s := range w.Stores {
			cur := hashesOf(s.OpLog().Values().Slice())
			if prev != nil && !isSubsequence(prev[i], cur) {
				w.pending = append(w.pending, explore.Violation{Property: prop, Signature: "listing-not-append-only-stable",
					Detail: fmt.Sprintf("replica %d after %s: before=%v after=%v", i, a, positions(prev[i], cur), len(cur))})
			}
		}
	}
	return
}

var _ = sort.Strings

func init() {
	explore.Register(&explore.CheckDef{
		ID: "C08", Level: "model_checking",
		Rule: "explicit-state DFS over all sequences of Add by each writer and merge(i<-j) actions up to the depth bound (every prefix of every merge sequence is a state); in every state on every replica: listing == log order, ancestors first, per-writer write order, every query {no bound, gt/gte/lt/lte x every entry} x amount {unset,0,1,2,len,len+3,-1,-2,-3,-len,-len-1,MaxInt,MaxInt-len,MinInt} equals the index window of the full listing, Get(hash) for every entry; around every action the previous listing must be a subsequence of the new one. Non-trivial = distinct states in which some replica holds entries of two writers.",
		Units: func(tier string) []explore.Unit {
			if tier == "thorough" {
				u := shardUnits(DFSArg{Kind: "eventlog", Writers: 2, Depth: 9, Alpha: "one", SD: 3}, 64)
				u = append(u, shardUnits(DFSArg{Kind: "eventlog", Writers: 3, Depth: 7, Alpha: "one", SD: 3}, 96)...)
				u = append(u, shardUnits(DFSArg{Kind: "eventlog", Writers: 2, Depth: 6, Alpha: "one", SnapLive: true}, 16)...)
				return u
			}
			u := shardUnits(DFSArg{Kind: "eventlog", Writers: 2, Depth: 7, Alpha: "one", SD: 3}, 16)
			u = append(u, shardUnits(DFSArg{Kind: "eventlog", Writers: 3, Depth: 5, Alpha: "one", SD: 3}, 16)...)
			// merging through the snapshot route: a snapshot saved earlier is loaded on the running store
			u = append(u, shardUnits(DFSArg{Kind: "eventlog", Writers: 2, Depth: 5, Alpha: "one", SnapLive: true}, 8)...)
			return u
		},
		Budget: func(tier string) float64 {
			if tier == "thorough" {
				return 1500
			}
			return 150
		},
		RunUnit: func(c *explore.Ctx) {
			runWritersDFS(c, "C08", func(a DFSArg) []WOp { return LogAlphabet(a.Alpha) }, func(w *Writers, a DFSArg) {
				w.Oracles = append(w.Oracles, OracleEventLog("C08"))
				b, af := stabilityObserver("C08")
				w.Before = append(w.Before, b)
				w.After = append(w.After, af)
			})
		},
		Assumptions: []string{
			"environment is the deterministic simulation in /verif/mc/sim",
			"bounds that are not entries of the log are excluded, as the property excludes them; for amount 0 the statement is silent and any correctly anchored window of length <= 1 is accepted",
		},
	})
}
