package scen

import (
	"berty.tech/go-orbit-db/stores/replicator"
	"encoding/json"
	"fmt"
	"sort"
	"strings"
	"sync"

	ipfslog "berty.tech/go-ipfs-log"
	"berty.tech/go-ipfs-log/entry"
	orbitdb "berty.tech/go-orbit-db"
	"berty.tech/go-orbit-db/accesscontroller"
	"berty.tech/go-orbit-db/iface"
	"berty.tech/go-orbit-db/stores"
	datastore "github.com/ipfs/go-datastore"
	"verifmc/explore"
	"verifmc/sim"
)

type mdb struct {
	kind   string
	addr   string
	sp, sr iface.Store // on P (under test) and on R (remote writer)
	open   bool        // R may write (wildcard list); otherwise only P's creator... both are listed
}

// MultiDB: instance P holds several databases on its shared event bus; remote R holds replicas.
type MultiDB struct {
	net     *sim.Net
	P, R    *sim.Instance
	dbs     []*mdb
	mu      sync.Mutex
	events  map[string]int // "address|event type" -> count, emitted on P's bus
	pending []explore.Violation
	pubSeen int
	n       int
	// gated: the instance's topic membership lookups and publishes park until released, and only local
	// writes are offered (interleavings of concurrent announcements)
	gated bool
	// fetchGated: the remote peer holds entries of every database that the instance lacks; only head
	// exchanges over the direct channel, deliveries and releases of the instance's parked block fetches are
	// offered, so that replication of one database is in flight while another database's heads arrive
	noRepl     bool // the instance's databases do not replicate over pubsub; "psync:<i>" hands db i the remote heads
	fetchGated bool
	exchanged  []int
	owner      map[string]int // entry hash -> database index (remote entries)
}

func writeAny(s iface.Store, v string) error {
	var err error
	switch st := s.(type) {
	case iface.EventLogStore:
		_, err = st.Add(bg, []byte(v))
	case iface.KeyValueStore:
		_, err = st.Put(bg, "k", []byte(v))
	case iface.DocumentStore:
		_, err = st.Put(bg, map[string]interface{}{"_id": "k", "v": v})
	}
	return err
}

func viewAny(s iface.Store) string {
	switch st := s.(type) {
	case iface.EventLogStore:
		ops, _ := st.List(bg, &iface.StreamOptions{Amount: intp(-1)})
		var l []string
		for _, o := range ops {
			l = append(l, string(o.GetValue()))
		}
		return strings.Join(l, ",")
	case iface.KeyValueStore:
		return kvString(st.All())
	case iface.DocumentStore:
		ds, _ := st.Query(bg, func(interface{}) (bool, error) { return true, nil })
		return docsMultiset(ds)
	}
	return ""
}

func NewMultiDB(kinds []string, lists []string) (*MultiDB, error) {
	return NewMultiDBNamed(kinds, lists, false)
}

// NewMultiDBNamed: with sameName every database gets the same name (they still differ by type or write
// list, hence by manifest and address).
func NewMultiDBNamed(kinds []string, lists []string, sameName bool) (*MultiDB, error) {
	return NewMultiDBOpts(kinds, lists, sameName, false)
}

// NewMultiDBOpts: with sharedOpts the databases are created by the remote peer and the instance under test
// opens all of them with ONE options value (an application that keeps a single options struct).
func NewMultiDBOpts(kinds []string, lists []string, sameName, sharedOpts bool) (*MultiDB, error) {
	return NewMultiDBRepl(kinds, lists, sameName, sharedOpts, true)
}

// NewMultiDBRepl: with replicate false the instance under test opens its databases with Replicate=false (no
// pubsub); entries of the remote peer then reach it through explicit "psync" actions only.
// multiDBSameRoot (set by the unit that wants it): every database after the first is the first database's
// manifest opened under a longer path ("<address>/archive<i>"): same root, different address.
var multiDBSameRoot bool

func NewMultiDBRepl(kinds []string, lists []string, sameName, sharedOpts, replicate bool) (*MultiDB, error) {
	w := &MultiDB{net: sim.NewNet(), events: map[string]int{}, noRepl: !replicate}
	shared := &orbitdb.CreateDBOptions{Replicate: boolp(replicate)}
	var err error
	if w.P, err = w.net.AddPeer("P").Start(nil); err != nil {
		return nil, err
	}
	if w.R, err = w.net.AddPeer("R").Start(nil); err != nil {
		return nil, err
	}
	w.P.Bus.Monitor(w.onEmit)
	for i, k := range kinds {
		ac := accesscontroller.NewEmptyManifestParams()
		if lists[i] == "*" {
			ac.SetAccess("write", []string{"*"})
		} else {
			ac.SetAccess("write", []string{w.P.DB.Identity().ID, w.R.DB.Identity().ID})
		}
		name := fmt.Sprintf("db%d", i)
		if sameName {
			name = "shared-name"
		}
		var sp, sr iface.Store
		if multiDBSameRoot && i > 0 {
			alt := w.dbs[0].addr + fmt.Sprintf("/archive%d", i)
			if sp, err = w.P.DB.Open(bg, alt, &orbitdb.CreateDBOptions{Replicate: boolp(replicate)}); err != nil {
				return nil, fmt.Errorf("open %s: %w", alt, err)
			}
			if sr, err = w.R.DB.Open(bg, alt, &orbitdb.CreateDBOptions{Replicate: boolp(true)}); err != nil {
				return nil, err
			}
			w.dbs = append(w.dbs, &mdb{kind: w.dbs[0].kind, addr: sp.Address().String(), sp: sp, sr: sr})
			continue
		}
		if sharedOpts {
			if sr, err = w.R.DB.Create(bg, name, k, &orbitdb.CreateDBOptions{AccessController: ac, Replicate: boolp(true)}); err != nil {
				return nil, err
			}
			if sp, err = w.P.DB.Open(bg, sr.Address().String(), shared); err != nil {
				return nil, err
			}
		} else {
			if sp, err = w.P.DB.Create(bg, name, k, &orbitdb.CreateDBOptions{AccessController: ac, Replicate: boolp(replicate)}); err != nil {
				return nil, err
			}
			if sr, err = w.R.DB.Open(bg, sp.Address().String(), &orbitdb.CreateDBOptions{Replicate: boolp(true)}); err != nil {
				return nil, err
			}
		}
		w.dbs = append(w.dbs, &mdb{kind: k, addr: sp.Address().String(), sp: sp, sr: sr})
	}
	if err := sim.Quiesce(); err != nil {
		return nil, err
	}
	// settle the initial join traffic (empty head exchanges)
	for round := 0; round < 100; round++ {
		ms := w.net.PubSub.Inflight()
		if len(ms) == 0 {
			break
		}
		w.net.PubSub.Deliver(ms[0])
		if err := sim.Quiesce(); err != nil {
			return nil, err
		}
	}
	w.mu.Lock()
	w.events = map[string]int{}
	w.pending = nil
	w.mu.Unlock()
	w.pubSeen = len(w.net.PubSub.Published)
	return w, nil
}

func (w *MultiDB) report(v explore.Violation) {
	w.mu.Lock()
	w.pending = append(w.pending, v)
	w.mu.Unlock()
}

func (w *MultiDB) onEmit(evt interface{}) {
	addr, typ := "", fmt.Sprintf("%T", evt)
	var entries []ipfslog.Entry
	switch e := evt.(type) {
	case stores.EventWrite:
		addr, entries = e.Address.String(), []ipfslog.Entry{e.Entry}
	case stores.EventReplicated:
		addr, entries = e.Address.String(), e.Entries
	case stores.EventReplicate:
		addr = e.Address.String()
	case stores.EventReplicateProgress:
		addr = e.Address.String()
	case stores.EventLoad:
		addr = e.Address.String()
	case stores.EventLoadProgress:
		addr = e.Address.String()
	case stores.EventReady:
		addr = e.Address.String()
	default:
		return
	}
	w.mu.Lock()
	w.events[addr+"|"+typ]++
	w.mu.Unlock()
	for _, en := range entries {
		if en != nil && en.GetLogID() != addr {
			w.report(explore.Violation{Signature: "store-event-carries-entries-of-another-database:" + strings.TrimPrefix(typ, "stores."),
				Detail: fmt.Sprintf("%s with address %s carries an entry of log %s", typ, short(addr), short(en.GetLogID()))})
		}
	}
}

func short(addr string) string {
	if i := strings.LastIndex(addr, "/"); i >= 0 {
		return addr[i+1:]
	}
	return addr
}

type dbSnap struct {
	entries, heads, view, cache, status, events string
}

func (w *MultiDB) snap(d *mdb) dbSnap {
	var s dbSnap
	s.entries = strings.Join(sortedStr(hashesOf(d.sp.OpLog().GetEntries().Slice())), ",")
	s.heads = strings.Join(sortedStr(hashesOf(d.sp.OpLog().Heads().Slice())), ",")
	s.view = viewAny(d.sp)
	for _, k := range []string{"_localHeads", "_remoteHeads"} {
		raw, _ := d.sp.Cache().Get(bg, datastore.NewKey(k))
		s.cache += fmt.Sprintf("%s=%x;", k, explore.Hash(string(raw)))
	}
	st := d.sp.ReplicationStatus()
	s.status = fmt.Sprintf("%d/%d", st.GetProgress(), st.GetMax())
	w.mu.Lock()
	var ev []string
	for k, n := range w.events {
		if strings.HasPrefix(k, d.addr+"|") {
			ev = append(ev, fmt.Sprintf("%s=%d", strings.TrimPrefix(k, d.addr+"|"), n))
		}
	}
	w.mu.Unlock()
	sort.Strings(ev)
	s.events = strings.Join(ev, ",")
	return s
}

func sortedStr(s []string) []string { sort.Strings(s); return s }

func (w *MultiDB) msgLabel(m *sim.Msg) string {
	var msg iface.MessageExchangeHeads
	_ = json.Unmarshal(m.Payload, &msg)
	db := "?"
	for i, d := range w.dbs {
		if d.addr == msg.Address {
			db = fmt.Sprint(i)
		}
	}
	return fmt.Sprintf("%s:%s>%s:db%s:%dheads:%x", m.Kind, w.net.Peer(m.From).Name, w.net.Peer(m.To).Name, db, len(msg.Heads), explore.Hash(string(m.Payload))&0xffff)
}

func (w *MultiDB) prettyGate(l string) string {
	for i, d := range w.dbs {
		l = strings.ReplaceAll(l, d.addr, fmt.Sprintf("db%d", i))
	}
	return l
}

// PrepareFetchGated gives the remote peer `per` entries in every database without telling the instance, then
// gates the instance's block fetches.
func (w *MultiDB) PrepareFetchGated(per int) error {
	w.fetchGated, w.owner, w.exchanged = true, map[string]int{}, make([]int, len(w.dbs))
	for i, d := range w.dbs {
		for j := 0; j < per; j++ {
			if err := writeAny(d.sr, fmt.Sprintf("r%d.%d", i, j)); err != nil {
				return err
			}
		}
		for _, e := range d.sr.OpLog().GetEntries().Slice() {
			w.owner[e.GetHash().String()] = i
		}
	}
	if err := sim.Quiesce(); err != nil {
		return err
	}
	for _, m := range w.net.PubSub.Inflight() {
		w.net.PubSub.Drop(m)
	}
	w.mu.Lock()
	w.events = map[string]int{}
	w.pending = nil
	w.mu.Unlock()
	w.pubSeen = len(w.net.PubSub.Published)
	w.net.Gates.Enable(func(kind, peer, key, caller string) bool { return peer == "P" && kind == "dag.get" })
	return nil
}

func (w *MultiDB) Enabled() []string {
	var out []string
	if w.fetchGated {
		for _, l := range w.net.Gates.Parked() {
			out = append(out, "ok:"+w.prettyGate(l))
		}
		seen := map[string]bool{}
		for _, m := range w.net.PubSub.Inflight() {
			if l := w.msgLabel(m); !seen[l] {
				seen[l] = true
				out = append(out, "deliver:"+l)
			}
		}
		for i := range w.dbs {
			if w.exchanged[i] == 0 {
				out = append(out, fmt.Sprintf("exchange:%d", i))
			}
		}
		return out
	}
	if w.gated {
		for _, l := range w.net.Gates.Parked() {
			out = append(out, "ok:"+w.prettyGate(l))
		}
		for i := range w.dbs {
			out = append(out, fmt.Sprintf("write:%d", i))
		}
		return out
	}
	seen := map[string]bool{}
	for _, m := range w.net.PubSub.Inflight() {
		l := w.msgLabel(m)
		if !seen[l] {
			seen[l] = true
			out = append(out, "deliver:"+l)
		}
	}
	for i := range w.dbs {
		out = append(out, fmt.Sprintf("write:%d", i))
	}
	for i := range w.dbs {
		out = append(out, fmt.Sprintf("rwrite:%d", i))
	}
	for i := range w.dbs {
		out = append(out, fmt.Sprintf("load:%d", i))
	}
	for i := range w.dbs {
		if w.dbs[i].sr.OpLog().Len() > 0 {
			out = append(out, fmt.Sprintf("exchange:%d", i))
		}
	}
	if w.noRepl {
		for i, d := range w.dbs {
			for _, e := range d.sr.OpLog().GetEntries().Slice() {
				if _, ok := d.sp.OpLog().Get(e.GetHash()); !ok {
					out = append(out, fmt.Sprintf("psync:%d", i))
					break
				}
			}
		}
	}
	return out
}

func (w *MultiDB) Do(a string) error {
	k, arg, _ := strings.Cut(a, ":")
	target := -1
	before := make([]dbSnap, len(w.dbs))
	for i, d := range w.dbs {
		before[i] = w.snap(d)
	}
	w.n++
	switch k {
	case "ok":
		real := ""
		for _, l := range w.net.Gates.Parked() {
			if w.prettyGate(l) == arg {
				real = l
			}
		}
		if real == "" {
			return fmt.Errorf("nothing parked under %q", arg)
		}
		for i := range w.dbs {
			if strings.Contains(arg, fmt.Sprintf("|db%d|", i)) {
				target = i
			}
		}
		for h, i := range w.owner {
			if strings.Contains(real, h) {
				target = i
			}
		}
		if err := w.net.Gates.Release(real, sim.AnswerOK); err != nil {
			return err
		}
	case "write":
		target = int(arg[0] - '0')
		if err := writeAny(w.dbs[target].sp, fmt.Sprintf("p%d", w.n)); err != nil {
			w.report(explore.Violation{Signature: "write-failed", Detail: err.Error()})
		}
	case "rwrite":
		target = int(arg[0] - '0')
		if err := writeAny(w.dbs[target].sr, fmt.Sprintf("r%d", w.n)); err != nil {
			w.report(explore.Violation{Signature: "write-failed", Detail: err.Error()})
		}
	case "exchange": // the remote peer hands its heads of one database over the direct channel
		target = int(arg[0] - '0')
		var heads []*entry.Entry
		for _, h := range w.dbs[target].sr.OpLog().Heads().Slice() {
			heads = append(heads, h.(*entry.Entry))
		}
		payload, _ := json.Marshal(&iface.MessageExchangeHeads{Address: w.dbs[target].addr, Heads: heads})
		w.net.PubSub.InjectDirect(w.R.Peer.ID, w.P.Peer.ID, payload)
		if w.fetchGated {
			w.exchanged[target]++
		}
	case "psync": // the application hands database i the remote peer's heads itself
		target = int(arg[0] - '0')
		hs, err := WireCopy(w.dbs[target].addr, w.dbs[target].sr.OpLog().Heads().Slice())
		if err != nil {
			return err
		}
		if err := w.dbs[target].sp.Sync(bg, hs); err != nil {
			w.report(explore.Violation{Signature: "sync-failed", Detail: err.Error()})
		}
	case "load":
		target = int(arg[0] - '0')
		if err := w.dbs[target].sp.Load(bg, -1); err != nil {
			w.report(explore.Violation{Signature: "load-failed", Detail: err.Error()})
		}
	case "deliver":
		var m *sim.Msg
		for _, x := range w.net.PubSub.Inflight() {
			if w.msgLabel(x) == arg {
				m = x
				break
			}
		}
		if m == nil {
			return fmt.Errorf("no message %q", arg)
		}
		var msg iface.MessageExchangeHeads
		_ = json.Unmarshal(m.Payload, &msg)
		for i, d := range w.dbs {
			if d.addr == msg.Address {
				target = i
			}
		}
		w.net.PubSub.Deliver(m)
	default:
		return fmt.Errorf("unknown action %q", a)
	}
	if err := sim.Quiesce(); err != nil {
		return err
	}
	// (2) databases not named by the action are untouched
	for i, d := range w.dbs {
		if i == target {
			continue
		}
		after := w.snap(d)
		b := before[i]
		diff := func(what, x, y string) {
			if x != y {
				w.report(explore.Violation{Signature: "other-database-affected:" + what,
					Detail: fmt.Sprintf("action %s names db%d, but db%d (%s) changed its %s: %q -> %q", a, target, i, d.kind, what, x, y)})
			}
		}
		diff("entries", b.entries, after.entries)
		diff("heads", b.heads, after.heads)
		diff("view", b.view, after.view)
		diff("cached-heads", b.cache, after.cache)
		diff("replication-status", b.status, after.status)
		diff("emitted-events", b.events, after.events)
	}
	// (3) replication of one database is not undone by traffic of another: once every exchanged database's
	// message has been delivered and every fetch released, the instance holds all the remote peer's entries
	if w.fetchGated && len(w.net.Gates.Parked()) == 0 && len(w.net.PubSub.Inflight()) == 0 {
		for i, d := range w.dbs {
			if w.exchanged[i] == 0 {
				continue
			}
			var missing []string
			for _, e := range d.sr.OpLog().GetEntries().Slice() {
				if _, ok := d.sp.OpLog().Get(e.GetHash()); !ok {
					missing = append(missing, short4(e.GetHash().String()))
				}
			}
			if len(missing) > 0 {
				w.report(explore.Violation{Signature: "replication-of-one-database-undone-by-another",
					Detail: fmt.Sprintf("after %s everything is delivered and released, but db%d (%s) lacks %d of the %d entries its heads message announced", a, i, d.kind, len(missing), d.sr.OpLog().Len())})
			}
		}
	}
	// (1) everything P sent carries only its own database's address and heads
	w.net.PubSub.Lock()
	pub := append([]*sim.Msg{}, w.net.PubSub.Published[w.pubSeen:]...)
	w.pubSeen = len(w.net.PubSub.Published)
	w.net.PubSub.Unlock()
	for _, m := range pub {
		if m.From != w.P.Peer.ID {
			continue
		}
		var msg iface.MessageExchangeHeads
		if err := json.Unmarshal(m.Payload, &msg); err != nil {
			continue
		}
		if m.Kind == "topic" && msg.Address != m.Topic {
			w.report(explore.Violation{Signature: "message-address-differs-from-topic", Detail: fmt.Sprintf("topic %s carries address %s", short(m.Topic), short(msg.Address))})
		}
		for _, h := range msg.Heads {
			want := msg.Address
			if m.Kind == "topic" {
				want = m.Topic
			}
			if h != nil && h.GetLogID() != want {
				w.report(explore.Violation{Signature: "heads-sent-on-another-databases-channel:" + m.Kind,
					Detail: fmt.Sprintf("after %s: %s message for %s carries a head of log %s", a, m.Kind, short(want), short(h.GetLogID()))})
			}
		}
	}
	return nil
}

func (w *MultiDB) Key() string {
	var b strings.Builder
	for _, d := range w.dbs {
		s := w.snap(d)
		fmt.Fprintf(&b, "[%s|%s|%s|%s|%d]", s.entries, s.cache, s.status, s.view, d.sr.OpLog().Len())
	}
	var ls []string
	for _, m := range w.net.PubSub.Inflight() {
		ls = append(ls, w.msgLabel(m))
	}
	fmt.Fprintf(&b, " msgs=%v", ls)
	if w.fetchGated {
		fmt.Fprintf(&b, " exchanged=%v", w.exchanged)
		// the same block may be fetched more than once: the replicators' bookkeeping tells those states apart
		for i, d := range w.dbs {
			if vs, ok := d.sp.Replicator().(replicator.VerifStater); ok {
				st := vs.VerifState()
				fmt.Fprintf(&b, " r%d=%d/%d/%d/%d", i, len(st.Added), len(st.Fetching), len(st.Fetched), st.QueueLen)
			}
		}
	}
	if w.gated || w.fetchGated {
		var ps []string
		for _, l := range w.net.Gates.Parked() {
			ps = append(ps, w.prettyGate(l))
		}
		fmt.Fprintf(&b, " parked=%v", ps)
	}
	return b.String()
}

func (w *MultiDB) Check(hist []string) []explore.Violation {
	w.mu.Lock()
	defer w.mu.Unlock()
	out := w.pending
	w.pending = nil
	return out
}

func (w *MultiDB) Close() {
	w.net.Gates.Enable(nil)
	for i := 0; i < 50 && w.net.Gates.ReleaseAll() > 0; i++ {
		_ = sim.Quiesce()
	}
	_ = w.P.Close()
	_ = w.R.Close()
	_ = sim.Quiesce()
}

type C09Arg struct {
	SameRoot    bool // databases 1.. are database 0's manifest opened under a longer path
	NoReplicate bool // the instance's databases are opened with Replicate=false
	FetchGated  int  // > 0: entries per database held by the remote peer only; block fetches gated
	SharedOpts  bool
	SameName    bool
	Gated       bool
	Kinds       []string
	Lists       []string
	Depth       int
	Shards      int
	Shard       int
}

func (a C09Arg) Name() string {
	g := ""
	if a.Gated {
		g = "/gated-announcements"
	}
	if a.SameName {
		g += "/same-name"
	}
	if a.SharedOpts {
		g += "/shared-options"
	}
	if a.FetchGated > 0 {
		g += fmt.Sprintf("/gated-fetches-%d", a.FetchGated)
	}
	if a.NoReplicate {
		g += "/not-replicating"
	}
	if a.SameRoot {
		g += "/same-root"
	}
	return fmt.Sprintf("multidb/%s/%s/d%d%s/shard%d.%d", strings.Join(a.Kinds, "+"), strings.Join(a.Lists, "+"), a.Depth, g, a.Shard, a.Shards)
}

func init() {
	explore.Register(&explore.CheckDef{
		ID: "C09", Level: "model_checking",
		Rule: "one instance with its shared event bus holds 2-3 databases (type mixes, write lists {both peers, wildcard}); a remote instance holds replicas; explicit-state DFS over write(db), load(db), remote write(db) (announced on that database's topic), head exchange for db over the direct channel and delivery of any in-flight message, up to the depth bound; also with databases that share one name but differ in type or write list, with databases that share one manifest root and differ in their path, with databases opened through one shared options value, with databases that do not replicate over pubsub and are handed remote heads explicitly, and with the instance's block fetches gated so that the heads of one database arrive while another database's replication is in flight (then every database must still end up with everything announced to it). After every action: every database not named by the action keeps its entry set, heads, view, cached heads, replication status and emitted-event counts; every topic/direct message sent by the instance carries its own address and only heads of that log; every write/replicated event carries only entries of its own address. Non-trivial = states in which at least two databases hold entries.",
		Units: func(tier string) []explore.Unit {
			cfgs := []C09Arg{
				{Kinds: []string{"eventlog", "eventlog"}, Lists: []string{"both", "both"}, Depth: 4},
				{Kinds: []string{"keyvalue", "eventlog"}, Lists: []string{"*", "both"}, Depth: 4},
				{Kinds: []string{"docstore", "keyvalue"}, Lists: []string{"both", "*"}, Depth: 4},
			}
			if tier == "thorough" {
				for i := range cfgs {
					cfgs[i].Depth = 5
				}
				cfgs = append(cfgs, C09Arg{Kinds: []string{"eventlog", "keyvalue", "docstore"}, Lists: []string{"both", "*", "both"}, Depth: 4})
				cfgs = append(cfgs, C09Arg{Kinds: []string{"eventlog", "eventlog", "eventlog", "keyvalue"}, Lists: []string{"both", "both", "*", "*"}, Depth: 3})
			} else {
				cfgs = append(cfgs, C09Arg{Kinds: []string{"eventlog", "keyvalue", "docstore"}, Lists: []string{"both", "*", "both"}, Depth: 3})
			}
			gd := 6
			if tier == "thorough" {
				gd = 8
			}
			cfgs = append(cfgs, C09Arg{SameName: true, Kinds: []string{"eventlog", "keyvalue"}, Lists: []string{"both", "both"}, Depth: gd - 3})
			cfgs = append(cfgs, C09Arg{SameName: true, Kinds: []string{"eventlog", "eventlog"}, Lists: []string{"both", "*"}, Depth: gd - 3})
			cfgs = append(cfgs, C09Arg{SharedOpts: true, Kinds: []string{"eventlog", "keyvalue"}, Lists: []string{"both", "*"}, Depth: gd - 3})
			cfgs = append(cfgs, C09Arg{SameRoot: true, Kinds: []string{"eventlog", "eventlog"}, Lists: []string{"both", "both"}, Depth: gd - 3})
			cfgs = append(cfgs, C09Arg{NoReplicate: true, Kinds: []string{"eventlog", "keyvalue"}, Lists: []string{"both", "both"}, Depth: gd - 2})
			cfgs = append(cfgs, C09Arg{FetchGated: 2, Kinds: []string{"eventlog", "keyvalue"}, Lists: []string{"both", "both"}, Depth: 9})
			cfgs = append(cfgs, C09Arg{Gated: true, Kinds: []string{"eventlog", "eventlog"}, Lists: []string{"both", "both"}, Depth: gd})
			cfgs = append(cfgs, C09Arg{Gated: true, Kinds: []string{"keyvalue", "eventlog"}, Lists: []string{"both", "*"}, Depth: gd})
			var u []explore.Unit
			for _, c := range cfgs {
				for s := 0; s < 12; s++ {
					x := c
					x.Shards, x.Shard = 12, s
					b, _ := json.Marshal(x)
					u = append(u, explore.Unit{Name: x.Name(), Arg: string(b)})
				}
			}
			return u
		},
		Budget: func(tier string) float64 {
			if tier == "thorough" {
				return 1500
			}
			return 400
		},
		RunUnit: func(c *explore.Ctx) {
			var a C09Arg
			if err := json.Unmarshal([]byte(c.Spec.Unit.Arg), &a); err != nil {
				c.Stats.HarnessErrs = append(c.Stats.HarnessErrs, err.Error())
				return
			}
			d := &explore.DFS{
				Scenario: a.Name(), Space: fmt.Sprintf("multidb/%s/%s/gated=%v/same=%v/shared=%v/fetch=%d/norepl=%v/sameroot=%v", strings.Join(a.Kinds, "+"), strings.Join(a.Lists, "+"), a.Gated, a.SameName, a.SharedOpts, a.FetchGated, a.NoReplicate, a.SameRoot),
				New: func() (explore.World, error) {
					multiDBSameRoot = a.SameRoot
					w, err := NewMultiDBRepl(a.Kinds, a.Lists, a.SameName, a.SharedOpts, !a.NoReplicate)
					if err == nil && a.FetchGated > 0 {
						err = w.PrepareFetchGated(a.FetchGated)
					}
					if err == nil && a.Gated {
						w.gated = true
						w.net.Gates.Enable(func(kind, peer, key, caller string) bool {
							return peer == "P" && (kind == "topic.peers" || kind == "publish")
						})
					}
					return w, err
				},
				MaxDepth: a.Depth, ShardDepth: 1, Shards: a.Shards, Shard: a.Shard,
				Stats: c.Stats, Journal: c.JournalHist, Poison: c.PoisonSet(), Expired: c.Expired,
				Nontrivial: func(hist []string, w explore.World) bool {
					n := 0
					for _, d := range w.(*MultiDB).dbs {
						if d.sp.OpLog().Len() > 0 {
							n++
						}
					}
					return n >= 2
				},
			}
			d.Run()
			for i := range c.Stats.Violations {
				if c.Stats.Violations[i].Property == "" {
					c.Stats.Violations[i].Property = "C09"
				}
			}
		},
		Assumptions: []string{
			"environment is the deterministic simulation in /verif/mc/sim; the instance's bus is the real libp2p event bus wrapped only to observe emissions",
		},
	})
}
