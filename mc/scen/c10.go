package scen

import (
	"encoding/json"
	"fmt"
	datastore "github.com/ipfs/go-datastore"
	"strings"
	"sync"

	"berty.tech/go-ipfs-log/entry"
	"berty.tech/go-orbit-db/stores"
	"berty.tech/go-orbit-db/stores/operation"
	"berty.tech/go-orbit-db/stores/replicator"
	cid "github.com/ipfs/go-cid"
	"verifmc/explore"
	"verifmc/sim"
)

func addPayload(v string) []byte {
	b, err := operation.NewOperation(nil, "ADD", []byte(v)).Marshal()
	if err != nil {
		panic(err)
	}
	return b
}

// Rejected builds one head that the victim must never merge, of the given kind. It returns the head
// to announce, the entries that must stay out of the victim's log, and who sends it.
func (w *Adv) Rejected(kind string, tag string) (head *entry.Entry, forbidden []*entry.Entry, sender *sim.Instance, err error) {
	name := kind + tag
	switch kind {
	case "nonwriter":
		head, err = Forge(w.N.Peer.API(), ForgeSpec{LogID: w.Addr, Payload: addPayload(name), Time: 1, Signer: w.N.DB.Identity()})
		forbidden, sender = []*entry.Entry{head}, w.N
	case "forged": // the writer's identity block copied into an entry signed by the attacker's key
		a := w.A.DB.Identity()
		head, err = Forge(w.N.Peer.API(), ForgeSpec{LogID: w.Addr, Payload: addPayload(name), Time: 1, Signer: w.N.DB.Identity(), Block: CopyIdentity(a), ClockID: a.PublicKey})
		forbidden, sender = []*entry.Entry{head}, w.N
	case "foreign": // a genuine entry of the writer, written for another database
		head, err = w.Write(w.SA2, name)
		forbidden, sender = []*entry.Entry{head}, w.A
	case "wronghash": // a genuine, authorised entry announced under another block's address
		var e *entry.Entry
		e, err = Forge(w.A.Peer.API(), ForgeSpec{LogID: w.Addr, Payload: addPayload(name), Time: 9, Signer: w.A.DB.Identity()})
		if err == nil {
			c := *e
			c.Hash = w.SA.Address().GetRoot() // some other valid CID: the database manifest
			head = &c
		}
		sender = w.N
	case "badancestor": // an authorised colluder's valid entry pointing at a non-writer's entry
		var n1 *entry.Entry
		n1, err = Forge(w.N.Peer.API(), ForgeSpec{LogID: w.Addr, Payload: addPayload(name + ".anc"), Time: 1, Signer: w.N.DB.Identity()})
		if err == nil {
			w.Names[n1.Hash.String()] = name + ".anc"
			head, err = Forge(w.B.Peer.API(), ForgeSpec{LogID: w.Addr, Payload: addPayload(name), Time: 2, Signer: w.B.DB.Identity(), Next: []cid.Cid{n1.Hash}})
		}
		forbidden, sender = []*entry.Entry{n1}, w.B
	case "stolenhash": // a non-writer's entry announced under the address of the valid head (the claimed hash is the announcer's choice)
		var e *entry.Entry
		e, err = Forge(w.N.Peer.API(), ForgeSpec{LogID: w.Addr, Payload: addPayload(name), Time: 1, Signer: w.N.DB.Identity()})
		if err == nil {
			genuine := *e
			forbidden = []*entry.Entry{&genuine}
			c := *e
			if hs := w.SA.OpLog().Heads().Slice(); len(hs) > 0 {
				c.Hash = hs[0].GetHash()
			}
			head = &c
			w.Names[genuine.Hash.String()] = name + ".content"
		}
		sender = w.N
	case "aliaslink", "junklink": // an authorised colluder's valid entry whose link cannot be followed to a genuine entry
		// aliaslink: the link names a genuine entry of A under another codec (same digest): what is fetched does
		// not hash to the requested address. junklink: the link names a block that is not an entry (the manifest).
		var a0 *entry.Entry
		a0, err = w.Write(w.SA, name+".target")
		if err == nil {
			link := cid.NewCidV1(cid.Raw, a0.Hash.Hash())
			if kind == "junklink" {
				link = w.SA.Address().GetRoot()
			}
			head, err = Forge(w.B.Peer.API(), ForgeSpec{LogID: w.Addr, Payload: addPayload(name), Time: a0.Clock.GetTime() + 1, Signer: w.B.DB.Identity(), Next: []cid.Cid{link}})
			if err == nil {
				ghost := *a0
				ghost.Hash = link
				w.Names[link.String()] = name + ".link"
				forbidden = []*entry.Entry{&ghost}
			}
		}
		sender = w.B
	default:
		err = fmt.Errorf("unknown rejected kind %q", kind)
	}
	if err == nil && head != nil && kind != "stolenhash" {
		w.Names[head.Hash.String()] = name
	}
	return
}

// C10World: mixed announcements of valid and rejected heads to the victim, then an honest re-announcement.
type C10World struct {
	*Adv
	arg       C10Arg
	anns      [][]*entry.Entry
	senders   []*sim.Instance
	delivered int
	reDone    bool
	valid     []*entry.Entry // valid heads
	mustHave  []*entry.Entry // closure of the valid heads
	forbidden []*entry.Entry
	mu        sync.Mutex
	pending   []explore.Violation
}

// MonitorEvents makes the world check, inside every replicated-event emission of the victim, that the
// announced entries are already in its log and view (C16 over batches that contain rejected entries).
func (w *C10World) MonitorEvents() {
	w.V.Bus.Monitor(func(evt interface{}) {
		e, ok := evt.(stores.EventReplicated)
		if !ok {
			return
		}
		// the heads the store would announce or reload from are already in its cache
		cached := map[string]bool{}
		for _, k := range []string{"_remoteHeads", "_localHeads"} {
			raw, err := w.SV.Cache().Get(bg, datastore.NewKey(k))
			if err != nil {
				continue
			}
			var hs []*entry.Entry
			if json.Unmarshal(raw, &hs) == nil {
				for _, h := range hs {
					if h != nil {
						cached[h.Hash.String()] = true
					}
				}
			}
		}
		for _, h := range w.SV.OpLog().Heads().Slice() {
			if !cached[h.GetHash().String()] {
				w.mu.Lock()
				w.pending = append(w.pending, explore.Violation{Signature: "replicated-event-ahead-of-cached-heads",
					Detail: fmt.Sprintf("EventReplicated is out while head %s of the log is in neither cached head list", w.Name(h.GetHash()))})
				w.mu.Unlock()
			}
		}
		view := "," + w.VictimView() + ","
		for _, en := range e.Entries {
			name := w.Name(en.GetHash())
			if !w.VictimHas(en.GetHash()) {
				w.mu.Lock()
				w.pending = append(w.pending, explore.Violation{Signature: "replicated-event-announces-entry-not-in-log",
					Detail: fmt.Sprintf("EventReplicated carries %s, which is not in the store's log %v", name, w.VictimSet())})
				w.mu.Unlock()
			} else if !strings.Contains(view, ","+name+",") {
				w.mu.Lock()
				w.pending = append(w.pending, explore.Violation{Signature: "replicated-event-ahead-of-view",
					Detail: fmt.Sprintf("EventReplicated carries %s, which is not listed yet (%s)", name, view)})
				w.mu.Unlock()
			}
		}
	})
}

type C10Arg struct {
	Kind   string // rejected kind
	Valid  string // "one" or "two"
	Layout string // "first","last","middle" (one mixed announcement), "split-rv", "split-vr" (two announcements)
	Route  string
	Bound  int
	Shards int
	Shard  int
	// Conc > 0: the victim is built by the store constructor (simple access controller carrying the write
	// list) with this replication concurrency, so that a single leaked fetch slot is observable
	Conc uint
}

func (a C10Arg) Name() string {
	c := ""
	if a.Conc > 0 {
		c = fmt.Sprintf("/concurrency%d", a.Conc)
	}
	return fmt.Sprintf("rejected/%s/valid-%s/%s/%s/dev%d%s", a.Kind, a.Valid, a.Layout, a.Route, a.Bound, c)
}

func NewC10World(a C10Arg) (*C10World, error) {
	adv, err := NewAdv(AdvOptions{Kind: "eventlog", Writers: []string{"A", "B"}, SimpleDirect: a.Conc > 0, Concurrency: a.Conc})
	if err != nil {
		return nil, err
	}
	w := &C10World{Adv: adv, arg: a}
	a1, err := w.Write(w.SA, "a1")
	if err != nil {
		return nil, err
	}
	a2, err := w.Write(w.SA, "a2")
	if err != nil {
		return nil, err
	}
	w.valid, w.mustHave = []*entry.Entry{a2}, []*entry.Entry{a1, a2}
	if a.Valid == "two" {
		b1, err := w.Write(w.SB, "b1")
		if err != nil {
			return nil, err
		}
		w.valid = append(w.valid, b1)
		w.mustHave = append(w.mustHave, b1)
	}
	r, forb, sender, err := w.Rejected(a.Kind, "")
	if err != nil {
		return nil, err
	}
	w.forbidden = forb
	mixed := func(pos int) []*entry.Entry {
		l := append([]*entry.Entry{}, w.valid[:pos]...)
		l = append(l, r)
		return append(l, w.valid[pos:]...)
	}
	switch a.Layout {
	case "first":
		w.anns, w.senders = [][]*entry.Entry{mixed(0)}, []*sim.Instance{sender}
	case "last":
		w.anns, w.senders = [][]*entry.Entry{mixed(len(w.valid))}, []*sim.Instance{sender}
	case "middle":
		w.anns, w.senders = [][]*entry.Entry{mixed(1)}, []*sim.Instance{sender}
	case "split-rv":
		w.anns, w.senders = [][]*entry.Entry{{r}, w.valid}, []*sim.Instance{sender, w.A}
	case "split-vr":
		w.anns, w.senders = [][]*entry.Entry{w.valid, {r}}, []*sim.Instance{w.A, sender}
	default:
		return nil, fmt.Errorf("unknown layout %q", a.Layout)
	}
	w.Net.Gates.Enable(func(kind, peer, key, caller string) bool { return kind == "dag.get" && peer == "V" })
	return w, nil
}

func (w *C10World) pretty(l string) string {
	for c, n := range w.Names {
		l = strings.ReplaceAll(l, c, n)
	}
	return l
}

func (w *C10World) Enabled() []string {
	var out []string
	parked := w.Net.Gates.Parked()
	for _, l := range parked {
		out = append(out, "ok:"+w.pretty(l))
	}
	if w.delivered < len(w.anns) {
		out = append(out, fmt.Sprintf("announce:%d", w.delivered+1))
	} else if !w.reDone && len(parked) == 0 {
		out = append(out, "reannounce")
	}
	return out
}

func (w *C10World) Do(a string) error {
	switch {
	case strings.HasPrefix(a, "ok:"):
		real := a[3:]
		for _, l := range w.Net.Gates.Parked() {
			if w.pretty(l) == real {
				real = l
				break
			}
		}
		if err := w.Net.Gates.Release(real, sim.AnswerOK); err != nil {
			return err
		}
	case strings.HasPrefix(a, "announce:"):
		i := w.delivered
		w.delivered++
		if err := w.Deliver(w.arg.Route, w.senders[i], w.anns[i]); err != nil {
			return err
		}
	case a == "reannounce":
		w.reDone = true
		if err := w.Deliver(w.arg.Route, w.A, w.valid); err != nil {
			return err
		}
	default:
		return fmt.Errorf("unknown action %q", a)
	}
	return sim.Quiesce()
}

func (w *C10World) Key() string { return "" }
func (w *C10World) Check(hist []string) []explore.Violation {
	w.mu.Lock()
	defer w.mu.Unlock()
	out := w.pending
	w.pending = nil
	return out
}

func (w *C10World) Final() []explore.Violation {
	if !w.reDone {
		return nil
	}
	var out []explore.Violation
	var missing []string
	for _, e := range w.mustHave {
		if !w.VictimHas(e.Hash) {
			missing = append(missing, w.Name(e.Hash))
		}
	}
	view := w.VictimView()
	for _, e := range w.mustHave {
		if !strings.Contains(","+view+",", ","+w.Name(e.Hash)+",") {
			missing = append(missing, "view:"+w.Name(e.Hash))
		}
	}
	st := ""
	if vs, ok := w.SV.Replicator().(replicator.VerifStater); ok {
		s := vs.VerifState()
		st = fmt.Sprintf("added=%d fetching=%d fetched=%d queue=%d buffer=%d", len(s.Added), len(s.Fetching), len(s.Fetched), s.QueueLen, s.BufferLen)
	}
	if len(missing) > 0 {
		out = append(out, explore.Violation{Signature: "valid-entries-blocked-by-rejected:" + w.arg.Kind,
			Detail: fmt.Sprintf("after the honest re-announcement the victim lacks %v (log %v, view %q; replicator %s)", missing, w.VictimSet(), view, st)})
	}
	for _, e := range w.forbidden {
		if w.VictimHas(e.Hash) {
			out = append(out, explore.Violation{Signature: "rejected-entry-merged:" + w.arg.Kind,
				Detail: fmt.Sprintf("the victim's log contains %s (log %v)", w.Name(e.Hash), w.VictimSet())})
		}
	}
	return out
}

func (w *C10World) Close() {
	w.Net.Gates.Enable(nil)
	for i := 0; i < 50; i++ {
		if w.Net.Gates.ReleaseAll() == 0 {
			break
		}
		_ = sim.Quiesce()
	}
	w.Adv.Close()
}

func init() {
	kinds := []string{"nonwriter", "forged", "foreign", "wronghash", "badancestor", "aliaslink", "junklink", "stolenhash"}
	routes := []string{"sync", "topic", "direct"}
	explore.Register(&explore.CheckDef{
		ID: "C10", Level: "model_checking",
		Rule: "for every rejected-head kind {non-writer author, writer's identity block with foreign key, entry of another database, wrong claimed hash, non-writer's entry claiming the valid head's hash, unauthorised ancestor behind an authorised colluder's head, colluder's head whose link is a same-digest alias of a genuine entry or names a block that is no entry} (each also against a victim with a single fetch slot, route sync) x valid heads {one head with ancestor, two heads} x layout {rejected first/middle/last in one announcement, two announcements in either order} x route {sync, topic, direct channel}: all completion orders of the victim's block fetches (every fetch gated; all schedules, deviation bound in evidence), then an honest re-announcement of the valid heads and all its fetch orders; at quiescence every valid entry must be in the victim's log and view and no forbidden entry may be. Non-trivial = executions with at least one deviation from the canonical fetch order.",
		Units: func(tier string) []explore.Unit {
			var u []explore.Unit
			bound := 2
			if tier == "thorough" {
				bound = -1
			}
			for _, k := range kinds {
				for _, v := range []string{"one", "two"} {
					layouts := []string{"first", "last", "split-rv", "split-vr"}
					if v == "two" {
						layouts = append(layouts, "middle")
					}
					for _, l := range layouts {
						for _, r := range routes {
							a := C10Arg{Kind: k, Valid: v, Layout: l, Route: r, Bound: bound}
							b, _ := json.Marshal(a)
							u = append(u, explore.Unit{Name: a.Name(), Arg: string(b)})
						}
						// one fetch slot: anything a rejected head leaves behind in the replicator blocks the next fetch
						a := C10Arg{Kind: k, Valid: v, Layout: l, Route: "sync", Bound: bound, Conc: 1}
						b, _ := json.Marshal(a)
						u = append(u, explore.Unit{Name: a.Name(), Arg: string(b)})
					}
				}
			}
			return u
		},
		Budget: func(tier string) float64 {
			if tier == "thorough" {
				return 1500
			}
			return 200
		},
		RunUnit: func(c *explore.Ctx) {
			var a C10Arg
			if err := json.Unmarshal([]byte(c.Spec.Unit.Arg), &a); err != nil {
				c.Stats.HarnessErrs = append(c.Stats.HarnessErrs, err.Error())
				return
			}
			d := &explore.ScheduleDFS{
				Settle:   settle,
				Scenario: a.Name(),
				New:      func() (explore.World, error) { return NewC10World(a) },
				Bound:    a.Bound, Horizon: 200, Stats: c.Stats, Journal: c.JournalHist, Expired: c.Expired,
				Terminal: func(w explore.World, hist []string) []explore.Violation { return w.(*C10World).Final() },
			}
			d.Run()
			for i := range c.Stats.Violations {
				c.Stats.Violations[i].Property = "C10"
			}
		},
		Assumptions: []string{
			"environment is the deterministic simulation in /verif/mc/sim; blocks of every peer are fetchable by the victim",
			"what happens to the mixed announcement itself (partial processing, dropped as a whole) is not judged",
		},
	})
}
