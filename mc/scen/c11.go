package scen

import (
	"context"
	"encoding/json"
	"fmt"
	"sort"
	"strings"

	ipfslog "berty.tech/go-ipfs-log"
	logio "berty.tech/go-ipfs-log/io"
	orbitdb "berty.tech/go-orbit-db"
	"berty.tech/go-orbit-db/accesscontroller"
	"berty.tech/go-orbit-db/address"
	"berty.tech/go-orbit-db/iface"
	"berty.tech/go-orbit-db/stores/eventlogstore"
	"berty.tech/go-orbit-db/stores/replicator"
	cid "github.com/ipfs/go-cid"
	"github.com/libp2p/go-libp2p/p2p/host/eventbus"
	"verifmc/explore"
	"verifmc/sim"
)

// request is one replication request of the scripted sequence.
type request struct {
	name      string
	heads     []ipfslog.Entry
	ctx       context.Context
	cancel    context.CancelFunc
	issued    bool
	cancelled bool
}

// CancelWorld: replica B replicates a remote log through a scripted sequence of Sync requests whose
// contexts the explorer may cancel at any step; fetches and the replicator's H2 points are gated.
type CancelWorld struct {
	net      *sim.Net
	instA    []*sim.Instance
	instB    *sim.Instance
	storeB   iface.Store
	reqs     []*request
	want     []ipfslog.Entry // entries reachable from the final request's heads
	eid      func(e ipfslog.Entry) string
	names    map[string]string // cid -> abstract id
	pending  []explore.Violation
	timeouts bool // aborted requests end with a deadline error instead of a cancellation
	failures int // fetch failures still allowed
	// overlap: the final request was issued while an item queued by an earlier (aborted or failing)
	// request was still pending in the replicator
	overlap bool
	failed  bool
}

// shape: "chain3" (one writer, 3 entries; requests for the head after 2 and after 3 entries),
// "fork" (two writers, unmerged: 2+1 entries; final request carries both heads).
func NewCancelWorld(shape string, concurrency uint, nreq int, failures int) (*CancelWorld, error) {
	w := &CancelWorld{net: sim.NewNet(), names: map[string]string{}, failures: failures}
	writers := 1
	if shape == "fork" {
		writers = 2
	}
	var ids []string
	for i := 0; i < writers; i++ {
		inst, err := w.net.AddPeer(fmt.Sprintf("A%d", i)).Start(nil)
		if err != nil {
			return nil, err
		}
		w.instA = append(w.instA, inst)
		ids = append(ids, inst.DB.Identity().ID)
	}
	ac := accesscontroller.NewEmptyManifestParams()
	ac.SetAccess("write", ids)
	s0, err := w.instA[0].DB.Log(bg, "db", &orbitdb.CreateDBOptions{AccessController: ac, Replicate: boolp(false)})
	if err != nil {
		return nil, err
	}
	storesA := []iface.EventLogStore{s0}
	for i := 1; i < writers; i++ {
		s, err := w.instA[i].DB.Log(bg, s0.Address().String(), &orbitdb.CreateDBOptions{Replicate: boolp(false)})
		if err != nil {
			return nil, err
		}
		storesA = append(storesA, s)
	}
	add := func(i int, v string) {
		op, err := storesA[i].Add(bg, []byte(v))
		if err != nil {
			panic(err)
		}
		w.names[op.GetEntry().GetHash().String()] = v
	}
	heads := func(is ...int) []ipfslog.Entry {
		var hs []ipfslog.Entry
		for _, i := range is {
			hs = append(hs, storesA[i].OpLog().Heads().Slice()...)
		}
		c, err := WireCopy(s0.Address().String(), hs)
		if err != nil {
			panic(err)
		}
		return c
	}
	var seq [][]ipfslog.Entry
	switch shape {
	case "chain3":
		add(0, "e1")
		add(0, "e2")
		h2 := heads(0)
		add(0, "e3")
		h3 := heads(0)
		seq = [][]ipfslog.Entry{h2, h3, h3}
		w.want = storesA[0].OpLog().Values().Slice()
	case "chain2":
		add(0, "e1")
		add(0, "e2")
		h2 := heads(0)
		seq = [][]ipfslog.Entry{h2, h2, h2}
		w.want = storesA[0].OpLog().Values().Slice()
	case "chain4":
		add(0, "e1")
		add(0, "e2")
		h2 := heads(0)
		add(0, "e3")
		add(0, "e4")
		h4 := heads(0)
		seq = [][]ipfslog.Entry{h2, h4, h4}
		w.want = storesA[0].OpLog().Values().Slice()
	case "fork":
		add(0, "a1")
		add(0, "a2")
		ha := heads(0)
		add(1, "b1")
		hab := heads(0, 1)
		seq = [][]ipfslog.Entry{ha, hab, hab}
		w.want = append(storesA[0].OpLog().Values().Slice(), storesA[1].OpLog().Values().Slice()...)
	default:
		return nil, fmt.Errorf("unknown shape %q", shape)
	}
	// requests: the first nreq-1 are cancellable, the last is the final uncancelled one
	if nreq < 2 {
		nreq = 2
	}
	if nreq > 3 {
		nreq = 3
	}
	pick := seq[3-nreq:]
	for i, hs := range pick {
		r := &request{name: fmt.Sprintf("req%d", i+1), heads: hs}
		if i == len(pick)-1 {
			r.name, r.ctx, r.cancel = "final", bg, func() {}
		} else {
			mc := newManualCtx()
			r.ctx, r.cancel = mc, func() {
				if w.timeouts {
					mc.end(context.DeadlineExceeded) // the request's deadline expires at this step
				} else {
					mc.end(context.Canceled)
				}
			}
		}
		w.reqs = append(w.reqs, r)
	}
	// replica B with the requested replication concurrency
	instB, err := w.net.AddPeer("B").Start(nil)
	if err != nil {
		return nil, err
	}
	w.instB = instB
	tmp, err := instB.DB.Open(bg, s0.Address().String(), &orbitdb.CreateDBOptions{Replicate: boolp(false)})
	if err != nil {
		return nil, err
	}
	acB := tmp.AccessController()
	_ = tmp.Close()
	addr, _ := address.Parse(s0.Address().String())
	ds, err := instB.Cache.Load(sim.Directory, addr)
	if err != nil {
		return nil, err
	}
	sB, err := eventlogstore.NewOrbitDBEventLogStore(instB.Peer.API(), instB.DB.Identity(), addr, &iface.NewStoreOptions{
		EventBus: eventbus.NewBus(), AccessController: acB, Cache: ds, CacheDestroy: func() error { return nil },
		ReplicationConcurrency: concurrency, Replicate: boolp(false), IO: logio.CBOR(),
	})
	if err != nil {
		return nil, err
	}
	w.storeB = sB
	if err := sim.Quiesce(); err != nil {
		return nil, err
	}
	sim.UsePointGates(w.net.Gates, func(name string, obj interface{}) string {
		switch o := obj.(type) {
		case interface{ GetHash() cid.Cid }:
			return w.names[o.GetHash().String()]
		case cid.Cid:
			return w.names[o.String()]
		}
		return ""
	})
	w.net.Gates.Enable(func(kind, peer, key, caller string) bool {
		if kind == "point" {
			return strings.HasPrefix(peer, "repl.") || strings.HasPrefix(peer, "store.")
		}
		return kind == "dag.get" && peer == "B"
	})
	return w, nil
}

func (w *CancelWorld) pretty(label string) string {
	for c, n := range w.names {
		label = strings.ReplaceAll(label, c, n)
	}
	return label
}

func (w *CancelWorld) Enabled() []string {
	var out []string
	parked := w.net.Gates.Parked()
	for _, l := range parked {
		out = append(out, "ok:"+w.pretty(l))
	}
	finalIssued := w.reqs[len(w.reqs)-1].issued
	for _, r := range w.reqs {
		if !r.issued {
			out = append(out, "issue:"+r.name)
			break
		}
	}
	if !finalIssued {
		for _, r := range w.reqs[:len(w.reqs)-1] {
			if !r.cancelled {
				out = append(out, "cancel:"+r.name)
			}
		}
	}
	if w.failures > 0 && !finalIssued {
		for _, l := range parked {
			if strings.HasPrefix(l, "dag.get|") {
				out = append(out, "fail:"+w.pretty(l))
			}
		}
	}
	return out
}

func (w *CancelWorld) unpretty(label string) string {
	for _, l := range w.net.Gates.Parked() {
		if w.pretty(l) == label {
			return l
		}
	}
	return label
}

func (w *CancelWorld) Do(a string) error {
	switch {
	case strings.HasPrefix(a, "ok:"):
		if err := w.net.Gates.Release(w.unpretty(a[3:]), sim.AnswerOK); err != nil {
			return err
		}
	case strings.HasPrefix(a, "fail:"):
		w.failures--
		w.failed = true
		if err := w.net.Gates.Release(w.unpretty(a[5:]), sim.AnswerFail); err != nil {
			return err
		}
	case strings.HasPrefix(a, "issue:"):
		for _, r := range w.reqs {
			if r.name == a[6:] {
				if r.name == "final" {
					if vs, ok := w.storeB.Replicator().(replicator.VerifStater); ok {
						st := vs.VerifState()
						aborted := false
						for _, q := range w.reqs[:len(w.reqs)-1] {
							aborted = aborted || q.cancelled
						}
						// "overlap" needs a worker of an earlier request that is still on its way (parked at a
						// gate or point); a task that is still marked pending although nobody works on it
						// any more is a settled, permanent wedge
						w.overlap = (len(st.Added) > 0 || len(st.Fetching) > 0) && (aborted || w.failed) && len(w.net.Gates.Parked()) > 0
					}
				}
				r.issued = true
				// Sync itself writes the heads to the local DAG; a cancelled context makes it fail early
				_ = w.storeB.Sync(r.ctx, r.heads)
			}
		}
	case strings.HasPrefix(a, "cancel:"):
		for _, r := range w.reqs {
			if r.name == a[7:] {
				r.cancelled = true
				r.cancel()
			}
		}
	default:
		return fmt.Errorf("unknown action %q", a)
	}
	return sim.Quiesce()
}

func (w *CancelWorld) Key() string                             { return "" }
func (w *CancelWorld) Check(hist []string) []explore.Violation { return nil }

// Final: nothing is parked, the final (never cancelled) request has been issued and the world is
// quiescent: every entry reachable from its heads must be visible.
func (w *CancelWorld) Final() []explore.Violation {
	if !w.reqs[len(w.reqs)-1].issued {
		return nil // horizon reached before the final request: nothing to judge
	}
	log := w.storeB.OpLog()
	var missing []string
	for _, e := range w.want {
		if _, ok := log.Get(e.GetHash()); !ok {
			missing = append(missing, w.names[e.GetHash().String()])
		}
	}
	sort.Strings(missing)
	listed, _ := listPayloads(w.storeB.(iface.EventLogStore))
	var notListed []string
	for _, e := range w.want {
		if listed[w.names[e.GetHash().String()]] != 1 {
			notListed = append(notListed, w.names[e.GetHash().String()])
		}
	}
	if len(missing) == 0 && len(notListed) == 0 {
		return nil
	}
	st := ""
	if vs, ok := w.storeB.Replicator().(replicator.VerifStater); ok {
		s := vs.VerifState()
		st = fmt.Sprintf(" replicator: added=%v fetching=%v fetched=%v queue=%d buffer=%d inprogress=%d", w.prettyAll(s.Added), w.prettyAll(s.Fetching), w.prettyAll(s.Fetched), s.QueueLen, s.BufferLen, s.InProgress)
	}
	kinds := map[string]bool{}
	for _, r := range w.reqs {
		if r.cancelled {
			kinds["cancel"] = true
		}
	}
	sig := "wedged:after-aborted-request-settled"
	if w.overlap {
		sig = "wedged:final-request-overlapped-unfinished-aborted-request"
	}
	return []explore.Violation{{Signature: sig,
		Detail: fmt.Sprintf("final uncancelled request reached quiescence but entries %v are not in the log (not listed: %v).%s", missing, notListed, st)}}
}

func (w *CancelWorld) prettyAll(cs []string) []string {
	out := make([]string, len(cs))
	for i, c := range cs {
		if n, ok := w.names[c]; ok {
			out[i] = n
		} else {
			out[i] = c
		}
	}
	return out
}

func (w *CancelWorld) Close() {
	w.net.Gates.Enable(nil)
	for _, r := range w.reqs {
		r.cancel()
	}
	for i := 0; i < 50; i++ {
		if w.net.Gates.ReleaseAll() == 0 {
			break
		}
		_ = sim.Quiesce()
	}
	_ = w.storeB.Close()
	_ = w.instB.Close()
	for _, i := range w.instA {
		_ = i.Close()
	}
	_ = sim.Quiesce()
}

type C11Arg struct {
	// LateCancel: parked environment calls do not notice a cancellation (they complete or fail on their own),
	// and the write with which the replicator re-derives a fetched entry's address is gated too, so that a
	// cancellation can land between "entry fetched" and "links queued"
	LateCancel                        bool
	Timeouts                          bool // requests are aborted by an expiring deadline, not by cancellation
	Shape                             string
	Conc                              uint
	Reqs, Fails, Bound, Shards, Shard int
}

func (a C11Arg) Name() string {
	lc := ""
	if a.LateCancel {
		lc = "/late-cancel"
	}
	if a.Timeouts {
		lc += "/timeouts"
	}
	return fmt.Sprintf("cancel/%s/conc%d/reqs%d/fails%d/dev%d%s/shard%d.%d", a.Shape, a.Conc, a.Reqs, a.Fails, a.Bound, lc, a.Shard, a.Shards)
}

func c11Units(base C11Arg, shards int) []explore.Unit {
	var out []explore.Unit
	for s := 0; s < shards; s++ {
		a := base
		a.Shards, a.Shard = shards, s
		b, _ := json.Marshal(a)
		out = append(out, explore.Unit{Name: a.Name(), Arg: string(b)})
	}
	return out
}

func init() {
	explore.Register(&explore.CheckDef{
		ID: "C11", Level: "model_checking",
		Rule: "replica B (replication concurrency 1, 2 and default) replicates a remote chain or fork through a scripted sequence of Sync requests (1-2 cancellable ones, then a final uncancelled request for the same or newer heads); every block fetch and the replicator's schedule points (before slot, after dequeue, before done, before load-complete; hooks H2) are gated; the explorer enumerates all executions with a bounded number of deviations from the canonical schedule, where a deviation is: cancelling a request's context at that step (in some units its deadline expires instead), issuing the next request early, failing a parked fetch, or releasing another parked goroutine first. Every execution runs to quiescence after the final request; oracle: all entries reachable from the final heads are in the log and listed. Load variant: a reopened replica with a persisted log (one or two cached heads) runs Load(ctx1) with every block read gated, ctx1 may be cancelled or its deadline may expire at any step, then an uncancelled Load; both calls must have returned and every persisted entry must be listed. Non-trivial = executions with at least one deviation.",
		Units: func(tier string) []explore.Unit {
			var u []explore.Unit
			b := 2
			if tier == "thorough" {
				b = 3
			}
			for _, conc := range []uint{1, 2, 0} {
				u = append(u, c11Units(C11Arg{Shape: "chain2", Conc: conc, Reqs: 2, Fails: 1, Bound: b + 1}, 8)...)
				u = append(u, c11Units(C11Arg{Shape: "chain3", Conc: conc, Reqs: 3, Fails: 1, Bound: b}, 16)...)
				u = append(u, c11Units(C11Arg{Shape: "fork", Conc: conc, Reqs: 3, Fails: 1, Bound: b}, 16)...)
			}
			for _, conc := range []uint{1, 2} {
				u = append(u, c11Units(C11Arg{Shape: "chain2", Conc: conc, Reqs: 2, Fails: 0, Bound: b, LateCancel: true}, 8)...)
				u = append(u, c11Units(C11Arg{Shape: "chain3", Conc: conc, Reqs: 2, Fails: 0, Bound: b, LateCancel: true}, 8)...)
			}
			for _, conc := range []uint{1, 2} {
				u = append(u, c11Units(C11Arg{Shape: "chain2", Conc: conc, Reqs: 2, Fails: 0, Bound: b, Timeouts: true}, 8)...)
			}
			u = append(u, c11LoadUnits(b+1)...)
			if tier == "thorough" {
				u = append(u, c11Units(C11Arg{Shape: "chain4", Conc: 1, Reqs: 3, Fails: 2, Bound: 3}, 32)...)
				u = append(u, c11Units(C11Arg{Shape: "chain4", Conc: 2, Reqs: 3, Fails: 2, Bound: 3}, 32)...)
			}
			return u
		},
		Budget: func(tier string) float64 {
			if tier == "thorough" {
				return 1500
			}
			return 400
		},
		RunUnit: func(c *explore.Ctx) {
			if strings.HasPrefix(c.Spec.Unit.Arg, "L") {
				runC11Load(c, c.Spec.Unit.Arg[1:])
				return
			}
			var a C11Arg
			if err := json.Unmarshal([]byte(c.Spec.Unit.Arg), &a); err != nil {
				c.Stats.HarnessErrs = append(c.Stats.HarnessErrs, err.Error())
				return
			}
			d := &explore.ScheduleDFS{
				Settle:   settle,
				Scenario: a.Name(),
				New: func() (explore.World, error) {
					w, err := NewCancelWorld(a.Shape, a.Conc, a.Reqs, a.Fails)
					if err == nil {
						w.timeouts = a.Timeouts
					}
					if err == nil && a.LateCancel {
						w.net.Gates.Deaf = true
						w.net.Gates.Enable(func(kind, peer, key, caller string) bool {
							if kind == "point" {
								return strings.HasPrefix(peer, "repl.") || strings.HasPrefix(peer, "store.")
							}
							return peer == "B" && (kind == "dag.get" || (kind == "dag.add" && strings.HasPrefix(caller, "replicator.")))
						})
					}
					return w, err
				},
				Bound:    a.Bound, Horizon: 300, Stats: c.Stats, Journal: c.JournalHist, Expired: c.Expired,
				Shards: a.Shards, Shard: a.Shard,
				Terminal: func(w explore.World, hist []string) []explore.Violation { return w.(*CancelWorld).Final() },
			}
			d.Run()
			for i := range c.Stats.Violations {
				c.Stats.Violations[i].Property = "C11"
			}
		},
		Assumptions: []string{
			"environment is the deterministic simulation in /verif/mc/sim; a failed fetch is an immediate not-found answer (the bounded stand-in for a bitswap timeout)",
			"the final request is never cancelled and all its fetches succeed, as the property's final phase requires",
		},
	})
}
