package scen

import (
	"context"
	"encoding/json"
	"fmt"
	"sort"
	"strings"

	ipfslog "berty.tech/go-ipfs-log"
	orbitdb "berty.tech/go-orbit-db"
	"berty.tech/go-orbit-db/accesscontroller"
	"berty.tech/go-orbit-db/iface"
	"verifmc/explore"
	"verifmc/sim"
)

// LoadCancelWorld: a replica with a persisted log (local and replicated entries, one or two cached heads)
// is reopened; Load(ctx1) runs with every block read gated and may be cancelled at any step; then an
// uncancelled Load must make everything visible.
type LoadCancelWorld struct {
	net                                 *sim.Net
	inst                                *sim.Instance
	store                               iface.Store
	want                                []string // payloads that must be listed
	names                               map[string]string
	ctx1                                *manualCtx
	first                               *asyncCall
	final                               *asyncCall
	cancelled, issuedFirst, issuedFinal bool
}

func NewLoadCancelWorld(shape string) (*LoadCancelWorld, error) {
	w := &LoadCancelWorld{net: sim.NewNet(), names: map[string]string{}}
	w.net.PubSub.AutoDeliver = true
	bPeer := w.net.AddPeer("B")
	B, err := bPeer.Start(nil)
	if err != nil {
		return nil, err
	}
	A, err := w.net.AddPeer("A").Start(nil)
	if err != nil {
		return nil, err
	}
	ac := accesscontroller.NewEmptyManifestParams()
	ac.SetAccess("write", []string{A.DB.Identity().ID, B.DB.Identity().ID})
	sb, err := B.DB.Log(bg, "db", &orbitdb.CreateDBOptions{AccessController: ac, Replicate: boolp(false)})
	if err != nil {
		return nil, err
	}
	addr := sb.Address().String()
	sa, err := A.DB.Log(bg, addr, &orbitdb.CreateDBOptions{Replicate: boolp(false)})
	if err != nil {
		return nil, err
	}
	add := func(s iface.EventLogStore, v string) {
		op, err := s.Add(bg, []byte(v))
		if err == nil {
			w.names[op.GetEntry().GetHash().String()] = v
			w.want = append(w.want, v)
		}
	}
	switch shape {
	case "local3":
		add(sb, "b1")
		add(sb, "b2")
		add(sb, "b3")
	case "twoheads":
		add(sb, "b1")
		add(sb, "b2")
		add(sa, "a1")
		add(sa, "a2")
		hs, _ := WireCopy(addr, sa.OpLog().Heads().Slice())
		_ = sb.Sync(bg, hs)
	default:
		return nil, fmt.Errorf("unknown shape %q", shape)
	}
	if err := sim.Quiesce(); err != nil {
		return nil, err
	}
	_ = A.Close()
	_ = B.Close()
	_ = sim.Quiesce()
	if w.inst, err = bPeer.Start(nil); err != nil {
		return nil, err
	}
	if w.store, err = w.inst.DB.Log(bg, addr, &orbitdb.CreateDBOptions{Replicate: boolp(false)}); err != nil {
		return nil, err
	}
	w.ctx1 = newManualCtx()
	w.net.Gates.Enable(func(kind, peer, key, caller string) bool { return kind == "dag.get" && peer == "B" })
	return w, nil
}

func (w *LoadCancelWorld) pretty(l string) string {
	for c, n := range w.names {
		l = strings.ReplaceAll(l, c, n)
	}
	return l
}

func (w *LoadCancelWorld) Enabled() []string {
	var out []string
	for _, l := range w.net.Gates.Parked() {
		out = append(out, "ok:"+w.pretty(l))
	}
	if !w.issuedFirst {
		out = append(out, "load:first")
	} else if !w.issuedFinal {
		out = append(out, "load:final")
	}
	if !w.cancelled && !w.issuedFinal {
		// the request is cancelled, or its deadline expires, at this step
		out = append(out, "cancel:first", "timeout:first")
	}
	return out
}

func (w *LoadCancelWorld) Do(a string) error {
	switch {
	case strings.HasPrefix(a, "ok:"):
		real := ""
		for _, l := range w.net.Gates.Parked() {
			if w.pretty(l) == a[3:] {
				real = l
			}
		}
		if err := w.net.Gates.Release(real, sim.AnswerOK); err != nil {
			return err
		}
	case a == "load:first":
		w.issuedFirst = true
		w.first = async("Load(ctx1)", func() error { return w.store.Load(w.ctx1, -1) })
	case a == "load:final":
		w.issuedFinal = true
		w.final = async("Load(final)", func() error { return w.store.Load(bg, -1) })
	case a == "cancel:first":
		w.cancelled = true
		w.ctx1.end(context.Canceled)
	case a == "timeout:first":
		w.cancelled = true
		w.ctx1.end(context.DeadlineExceeded)
	default:
		return fmt.Errorf("unknown action %q", a)
	}
	return sim.Quiesce()
}

func (w *LoadCancelWorld) Key() string                             { return "" }
func (w *LoadCancelWorld) Check(hist []string) []explore.Violation { return nil }

func (w *LoadCancelWorld) Final() []explore.Violation {
	if !w.issuedFinal {
		return nil
	}
	var out []explore.Violation
	if !w.first.finished() {
		out = append(out, explore.Violation{Signature: "load-hangs:first-load-never-returned", Detail: fmt.Sprintf("Load(ctx1) (cancelled=%v) has not returned at quiescence", w.cancelled)})
	}
	if !w.final.finished() {
		return append(out, explore.Violation{Signature: "load-hangs:uncancelled-load-never-returned", Detail: "the final Load has not returned at quiescence"})
	}
	if w.final.err != nil {
		out = append(out, explore.Violation{Signature: "uncancelled-load-failed", Detail: w.final.err.Error()})
	}
	listed, _ := listPayloads(w.store.(iface.EventLogStore))
	var missing []string
	for _, v := range w.want {
		if listed[v] != 1 {
			missing = append(missing, v)
		}
	}
	sort.Strings(missing)
	if len(missing) > 0 {
		out = append(out, explore.Violation{Signature: "entries-missing-after-uncancelled-load", Detail: fmt.Sprintf("after the aborted Load and a complete one, %v are not listed (listing %v)", missing, listed)})
	}
	return out
}

func (w *LoadCancelWorld) Close() {
	w.net.Gates.Enable(nil)
	w.ctx1.end(context.Canceled)
	for i := 0; i < 50 && w.net.Gates.ReleaseAll() > 0; i++ {
		_ = sim.Quiesce()
	}
	_ = w.inst.Close()
	_ = sim.Quiesce()
}

var _ ipfslog.Entry

func c11LoadUnits(bound int) []explore.Unit {
	var u []explore.Unit
	for _, sh := range []string{"local3", "twoheads"} {
		for s := 0; s < 8; s++ {
			b, _ := json.Marshal(map[string]interface{}{"Shape": sh, "Bound": bound, "Shards": 8, "Shard": s})
			u = append(u, explore.Unit{Name: fmt.Sprintf("loadcancel/%s/dev%d/shard%d.8", sh, bound, s), Arg: "L" + string(b)})
		}
	}
	return u
}

func runC11Load(c *explore.Ctx, arg string) {
	var a struct {
		Shape                string
		Bound, Shards, Shard int
	}
	if err := json.Unmarshal([]byte(arg), &a); err != nil {
		c.Stats.HarnessErrs = append(c.Stats.HarnessErrs, err.Error())
		return
	}
	d := &explore.ScheduleDFS{
		Settle:   settle,
		Scenario: c.Spec.Unit.Name,
		New:      func() (explore.World, error) { return NewLoadCancelWorld(a.Shape) },
		Bound:    a.Bound, Horizon: 200, Stats: c.Stats, Journal: c.JournalHist, Expired: c.Expired,
		Shards: a.Shards, Shard: a.Shard,
		Terminal: func(w explore.World, hist []string) []explore.Violation { return w.(*LoadCancelWorld).Final() },
	}
	d.Run()
	for i := range c.Stats.Violations {
		c.Stats.Violations[i].Property = "C11"
	}
}
