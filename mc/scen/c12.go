package scen

import (
	"encoding/binary"
	"encoding/json"
	"fmt"
	cid "github.com/ipfs/go-cid"
	"strings"

	"berty.tech/go-ipfs-log/entry"
	idp "berty.tech/go-ipfs-log/identityprovider"
	logio "berty.tech/go-ipfs-log/io"
	orbitdb "berty.tech/go-orbit-db"
	"berty.tech/go-orbit-db/accesscontroller"
	"berty.tech/go-orbit-db/iface"
	"berty.tech/go-orbit-db/pubsub/directchannel"
	"go.uber.org/zap"
	"verifmc/explore"
	"verifmc/sim"
)

// MalformedWorld: victim V holds two entries of writer A; raw bytes are fed to V's topic listener, to its
// direct-channel monitor, or as a raw stream frame to the real stream-based direct-channel adapter.
type MalformedWorld struct {
	net      *sim.Net
	A, V     *sim.Instance
	sa, sv   iface.Store
	addr     string
	entry    string // "topic" | "direct" | "stream"
	host     *sim.FakeHost
	expected map[string]bool
	probes   int
	real     []byte // a genuine message announcing a head V already holds
	wedged   bool   // the victim instance no longer answers: it cannot be closed either
}

func NewMalformedWorld(entryPoint string) (*MalformedWorld, error) {
	w := &MalformedWorld{net: sim.NewNet(), entry: entryPoint, expected: map[string]bool{}}
	w.net.PubSub.AutoDeliver = true
	var err error
	if w.A, err = w.net.AddPeer("A").Start(nil); err != nil {
		return nil, err
	}
	vPeer := w.net.AddPeer("V")
	var opts *sim.InstanceOptions
	if entryPoint == "stream" {
		w.host = sim.NewFakeHost(vPeer.ID)
		opts = &sim.InstanceOptions{DirectChannelFactory: directchannel.InitDirectChannelFactory(zap.NewNop(), w.host)}
	}
	if w.V, err = vPeer.Start(opts); err != nil {
		return nil, err
	}
	ac := accesscontroller.NewEmptyManifestParams()
	ac.SetAccess("write", []string{w.A.DB.Identity().ID})
	if w.sa, err = w.A.DB.Log(bg, "db", &orbitdb.CreateDBOptions{AccessController: ac, Replicate: boolp(false)}); err != nil {
		return nil, err
	}
	w.addr = w.sa.Address().String()
	if w.sv, err = w.V.DB.Log(bg, w.addr, &orbitdb.CreateDBOptions{Replicate: boolp(true)}); err != nil {
		return nil, err
	}
	_ = writeAny(w.sa, "a1")
	_ = writeAny(w.sa, "a2")
	hs, _ := WireCopy(w.addr, w.sa.OpLog().Heads().Slice())
	_ = w.sv.Sync(bg, hs)
	if err := sim.Quiesce(); err != nil {
		return nil, err
	}
	for _, e := range w.sv.OpLog().GetEntries().Slice() {
		w.expected[e.GetHash().String()] = true
	}
	if len(w.expected) != 2 {
		return nil, fmt.Errorf("malformed world: victim holds %d entries, expected 2", len(w.expected))
	}
	var heads []*entry.Entry
	for _, h := range w.sa.OpLog().Heads().Slice() {
		heads = append(heads, h.(*entry.Entry))
	}
	w.real, _ = json.Marshal(&iface.MessageExchangeHeads{Address: w.addr, Heads: heads})
	return w, nil
}

func (w *MalformedWorld) Close() {
	_ = w.A.Close()
	if !w.wedged {
		_ = w.V.Close()
	}
	_ = sim.Quiesce()
}

func frame(payload []byte) []byte {
	lenbuf := make([]byte, binary.MaxVarintLen64)
	n := binary.PutUvarint(lenbuf, uint64(len(payload)))
	return append(lenbuf[:n], payload...)
}

// Feed hands raw bytes to the chosen entry point. For "stream", raw is the complete stream content.
func (w *MalformedWorld) Feed(raw []byte) {
	switch w.entry {
	case "topic":
		w.net.PubSub.InjectTopic(w.A.Peer.ID, w.V.Peer.ID, w.addr, raw)
	case "direct":
		w.net.PubSub.InjectDirect(w.A.Peer.ID, w.V.Peer.ID, raw)
	case "stream":
		if h := w.host.Handler(directchannel.PROTOCOL); h != nil {
			go h(sim.NewInStream(w.A.Peer.ID, raw))
		}
	}
}

// FeedMessage wraps a message payload as the entry point expects it.
func (w *MalformedWorld) FeedMessage(payload []byte) {
	if w.entry == "stream" {
		w.Feed(frame(payload))
		return
	}
	w.Feed(payload)
}

// Unchanged verifies the victim holds exactly the expected entries.
func (w *MalformedWorld) Unchanged() string {
	got := w.sv.OpLog().GetEntries().Slice()
	if len(got) != len(w.expected) {
		return fmt.Sprintf("victim holds %d entries, expected %d", len(got), len(w.expected))
	}
	for _, e := range got {
		if !w.expected[e.GetHash().String()] {
			return "victim holds an unexpected entry " + e.GetHash().String()
		}
	}
	ops, _ := w.sv.(iface.EventLogStore).List(bg, &iface.StreamOptions{Amount: intp(-1)})
	if len(ops) != len(w.expected) {
		return fmt.Sprintf("victim lists %d entries, expected %d", len(ops), len(w.expected))
	}
	return ""
}

// Probe sends a fresh valid announcement through the same entry point; it must be merged.
func (w *MalformedWorld) Probe() string {
	w.probes++
	if err := writeAny(w.sa, fmt.Sprintf("probe%d", w.probes)); err != nil {
		return "harness: " + err.Error()
	}
	var heads []*entry.Entry
	for _, h := range w.sa.OpLog().Heads().Slice() {
		heads = append(heads, h.(*entry.Entry))
	}
	msg, _ := json.Marshal(&iface.MessageExchangeHeads{Address: w.addr, Heads: heads})
	w.FeedMessage(msg)
	if err := sim.Quiesce(); err != nil {
		return "not quiescent"
	}
	if _, ok := w.sv.OpLog().Get(heads[0].Hash); !ok {
		return "a valid announcement sent after the malformed input was not merged"
	}
	w.expected[heads[0].Hash.String()] = true
	// later inputs mutate a message that announces a head the victim holds
	w.real = msg
	// the instance that received the input still serves its API: another database can be opened on it (and then
	// receives messages of its own) and closed again
	call := async("open another database", func() error {
		s, err := w.V.DB.Log(bg, fmt.Sprintf("post-%d", w.probes), &orbitdb.CreateDBOptions{Replicate: boolp(true)})
		if err != nil {
			return err
		}
		return s.Close()
	})
	if err := sim.Quiesce(); err != nil {
		return "not quiescent"
	}
	if !call.finished() {
		w.wedged = true
		return "opening and closing another database on the receiving instance never returns"
	}
	if call.err != nil {
		return "opening and closing another database on the receiving instance fails: " + call.err.Error()
	}
	return ""
}

type malCase struct {
	id  string
	raw []byte
	// framed: raw is a message payload (to be framed for the stream entry point); otherwise raw is
	// the complete stream content (stream entry point only)
	framed bool
}

var jsonAlphabet = []byte(`{}[]":,0nt ae`)

func malFamily(name string, w *MalformedWorld, tier string) []malCase {
	var out []malCase
	add := func(id string, raw []byte, framed bool) {
		out = append(out, malCase{id: name + ":" + id, raw: raw, framed: framed})
	}
	switch name {
	case "short": // every byte string of length <= 2, every string of length 3 over a JSON alphabet
		add("empty", []byte{}, true)
		for a := 0; a < 256; a++ {
			add(fmt.Sprintf("%02x", a), []byte{byte(a)}, true)
		}
		for a := 0; a < 256; a++ {
			for b := 0; b < 256; b++ {
				add(fmt.Sprintf("%02x%02x", a, b), []byte{byte(a), byte(b)}, true)
			}
		}
		for _, a := range jsonAlphabet {
			for _, b := range jsonAlphabet {
				for _, c := range jsonAlphabet {
					add(fmt.Sprintf("j%c%c%c", a, b, c), []byte{a, b, c}, true)
				}
			}
		}
	case "structure":
		var head map[string]interface{}
		var msg map[string]interface{}
		_ = json.Unmarshal(w.real, &msg)
		hl := msg["heads"].([]interface{})
		head = hl[0].(map[string]interface{})
		hb, _ := json.Marshal(head)
		addrs := map[string]string{"absent": "", "null": `"address":null,`, "empty": `"address":"",`, "number": `"address":7,`,
			"other": `"address":"/orbitdb/bafyreidq2ev77sqtrrqpymg3tlsy6l4pmpg4zb7c6qaxptogoyrcdh224q/x",`, "this": fmt.Sprintf(`"address":%q,`, w.addr)}
		headss := map[string]string{"absent": `"x":1`, "null": `"heads":null`, "empty": `"heads":[]`, "nullhead": `"heads":[null]`, "emptyobj": `"heads":[{}]`,
			"null+valid": `"heads":[null,` + string(hb) + `]`, "valid+null": `"heads":[` + string(hb) + `,null]`, "string": `"heads":"x"`, "number": `"heads":[1]`, "nested": `"heads":[[]]`}
		for an, a := range addrs {
			for hn, h := range headss {
				add("addr="+an+",heads="+hn, []byte("{"+a+h+"}"), true)
			}
		}
		// every single field and every pair of fields of a real head set to absent/null/wrong type/empty
		type fld struct{ path []string }
		fields := []fld{{[]string{"payload"}}, {[]string{"id"}}, {[]string{"next"}}, {[]string{"refs"}}, {[]string{"v"}}, {[]string{"key"}}, {[]string{"sig"}},
			{[]string{"identity"}}, {[]string{"identity", "id"}}, {[]string{"identity", "publicKey"}}, {[]string{"identity", "signatures"}}, {[]string{"identity", "type"}},
			{[]string{"hash"}}, {[]string{"clock"}}, {[]string{"clock", "id"}}, {[]string{"clock", "time"}}}
		variants := []string{"absent", "null", "wrongtype", "empty"}
		mutate := func(h map[string]interface{}, f fld, v string) {
			m := h
			for _, p := range f.path[:len(f.path)-1] {
				sub, ok := m[p].(map[string]interface{})
				if !ok {
					return
				}
				m = sub
			}
			k := f.path[len(f.path)-1]
			switch v {
			case "absent":
				delete(m, k)
			case "null":
				m[k] = nil
			case "wrongtype":
				switch m[k].(type) {
				case string:
					m[k] = 7
				case float64:
					m[k] = "7"
				default:
					m[k] = "x"
				}
			case "empty":
				switch m[k].(type) {
				case string:
					m[k] = ""
				case float64:
					m[k] = 0
				case []interface{}:
					m[k] = []interface{}{}
				default:
					m[k] = map[string]interface{}{}
				}
			}
		}
		build := func(muts ...[2]interface{}) []byte {
			var h map[string]interface{}
			_ = json.Unmarshal(hb, &h)
			for _, mu := range muts {
				mutate(h, mu[0].(fld), mu[1].(string))
			}
			b, _ := json.Marshal(map[string]interface{}{"address": w.addr, "heads": []interface{}{h}})
			return b
		}
		for _, f := range fields {
			for _, v := range variants {
				add(fmt.Sprintf("%s=%s", strings.Join(f.path, "."), v), build([2]interface{}{f, v}), true)
			}
		}
		for i, f := range fields {
			for _, g := range fields[i+1:] {
				for _, v := range variants {
					for _, u := range variants {
						if tier != "thorough" && v != u {
							continue
						}
						add(fmt.Sprintf("%s=%s,%s=%s", strings.Join(f.path, "."), v, strings.Join(g.path, "."), u), build([2]interface{}{f, v}, [2]interface{}{g, u}), true)
					}
				}
			}
		}
	case "bytes": // byte-level mutations of a real message, and every truncation
		vals := []byte{0x00, 0xff, '"', '{'}
		for pos := 0; pos < len(w.real); pos++ {
			if tier == "thorough" {
				for v := 0; v < 256; v++ {
					if byte(v) == w.real[pos] {
						continue
					}
					m := append([]byte{}, w.real...)
					m[pos] = byte(v)
					add(fmt.Sprintf("pos%d=%02x", pos, v), m, true)
				}
			} else {
				for _, v := range vals {
					if v == w.real[pos] {
						continue
					}
					m := append([]byte{}, w.real...)
					m[pos] = v
					add(fmt.Sprintf("pos%d=%02x", pos, v), m, true)
				}
				m := append([]byte{}, w.real...)
				m[pos] ^= 1
				add(fmt.Sprintf("pos%d^1", pos), m, true)
			}
		}
		step := 1
		if tier != "thorough" {
			step = 7
		}
		for cut := 0; cut < len(w.real); cut += step {
			add(fmt.Sprintf("trunc%d", cut), append([]byte{}, w.real[:cut]...), true)
		}
	case "frames": // length prefixes: boundary values, over-long and truncated varints, wrong body lengths
		const max = 4 * 1024 * 1024
		lengths := []uint64{0, 1, 127, 128, max - 1, max, max + 1, 1<<31 - 1, 1 << 31, 1 << 32, 1<<63 - 1, 1 << 63, 1<<64 - 1}
		body := w.real
		for _, l := range lengths {
			lenbuf := make([]byte, binary.MaxVarintLen64)
			n := binary.PutUvarint(lenbuf, l)
			for _, bl := range []int{0, len(body) - 1, len(body), len(body) + 1} {
				b := append([]byte{}, body...)
				if bl <= len(b) {
					b = b[:bl]
				} else {
					b = append(b, ' ')
				}
				add(fmt.Sprintf("len=%d,body=%d", l, bl), append(append([]byte{}, lenbuf[:n]...), b...), false)
			}
		}
		add("varint-10-bytes-overflow", append([]byte{0xff, 0xff, 0xff, 0xff, 0xff, 0xff, 0xff, 0xff, 0xff, 0x7f}, body...), false)
		add("varint-11-bytes", append([]byte{0xff, 0xff, 0xff, 0xff, 0xff, 0xff, 0xff, 0xff, 0xff, 0xff, 0x01}, body...), false)
		add("varint-truncated", []byte{0x80}, false)
		add("varint-truncated-2", []byte{0xff, 0xff}, false)
		add("empty-stream", []byte{}, false)
		// exact length of the real message: a valid frame
		add("exact", frame(body), false)
	}
	return out
}

// independentlyValid decides, without the code under test, whether a message payload announces exactly one
// complete, correctly addressed and validly signed head of this database.
func (w *MalformedWorld) independentlyValid(payload []byte) bool {
	var msg iface.MessageExchangeHeads
	if json.Unmarshal(payload, &msg) != nil || len(msg.Heads) != 1 || msg.Heads[0] == nil {
		return false
	}
	h := msg.Heads[0]
	if msg.Address != w.addr && w.entry != "topic" {
		return false
	}
	if h.Identity == nil || h.Identity.Signatures == nil || h.Clock == nil || len(h.Clock.ID) == 0 || len(h.Key) == 0 || len(h.Sig) == 0 || h.LogID != w.addr {
		return false
	}
	ok := true
	func() {
		defer func() {
			if recover() != nil {
				ok = false
			}
		}()
		if h.Verify(idp.NewOrbitDBIdentityProvider(&idp.CreateIdentityOptions{}), logio.CBOR()) != nil {
			ok = false
			return
		}
		c, err := entry.ToMultihashWithIO(bg, h, w.A.Peer.API(), nil, logio.CBOR())
		if err != nil || c.String() != h.Hash.String() {
			ok = false
		}
	}()
	return ok
}

// runFreshHeadFamily: every single-field (and, in thorough, every pair) corruption of a message that
// announces a head the victim does NOT hold yet, each preceded by a complete valid message (the probe of
// the previous case). A corrupted message that is not independently valid must not bring the head in.
func runFreshHeadFamily(c *explore.Ctx, a C12Arg, w *MalformedWorld) {
	type fld struct{ path []string }
	fields := []fld{{[]string{"payload"}}, {[]string{"id"}}, {[]string{"next"}}, {[]string{"refs"}}, {[]string{"v"}}, {[]string{"key"}}, {[]string{"sig"}},
		{[]string{"identity"}}, {[]string{"identity", "id"}}, {[]string{"identity", "publicKey"}}, {[]string{"identity", "signatures"}}, {[]string{"identity", "type"}},
		{[]string{"hash"}}, {[]string{"clock"}}, {[]string{"clock", "id"}}, {[]string{"clock", "time"}}, {[]string{"#address"}}}
	variants := []string{"absent", "null", "wrongtype", "empty"}
	type cse struct {
		id   string
		muts [][2]string
	}
	var cases []cse
	for _, f := range fields {
		for _, v := range variants {
			cases = append(cases, cse{id: fmt.Sprintf("fresh:%s=%s", strings.Join(f.path, "."), v), muts: [][2]string{{strings.Join(f.path, "."), v}}})
		}
	}
	if c.Spec.Tier == "thorough" {
		for i, f := range fields {
			for _, g := range fields[i+1:] {
				for _, v := range variants {
					cases = append(cases, cse{id: fmt.Sprintf("fresh:%s=%s,%s=%s", strings.Join(f.path, "."), v, strings.Join(g.path, "."), v),
						muts: [][2]string{{strings.Join(f.path, "."), v}, {strings.Join(g.path, "."), v}}})
				}
			}
		}
	}
	apply := func(m map[string]interface{}, path []string, v string) {
		for _, p := range path[:len(path)-1] {
			sub, ok := m[p].(map[string]interface{})
			if !ok {
				return
			}
			m = sub
		}
		k := path[len(path)-1]
		switch v {
		case "absent":
			delete(m, k)
		case "null":
			m[k] = nil
		case "wrongtype":
			switch m[k].(type) {
			case string:
				m[k] = 7
			case float64:
				m[k] = "7"
			default:
				m[k] = "x"
			}
		case "empty":
			switch m[k].(type) {
			case string:
				m[k] = ""
			case float64:
				m[k] = 0
			case []interface{}:
				m[k] = []interface{}{}
			default:
				m[k] = map[string]interface{}{}
			}
		}
	}
	for idx, cs := range cases {
		if explore.ReplayOnly != nil {
			if len(explore.ReplayOnly) == 0 || a.Entry+" "+cs.id != explore.ReplayOnly[0] {
				continue
			}
		} else if a.Chunks > 1 && idx%a.Chunks != a.Chunk {
			continue
		}
		if idx <= c.Spec.ResumeAfter {
			continue
		}
		if c.Expired() {
			c.Stats.CapsHit = append(c.Stats.CapsHit, fmt.Sprintf("%s: time budget reached at case %d of %d", a.Name(), idx, len(cases)))
			return
		}
		c.JournalCase(idx, a.Entry+" "+cs.id)
		// a new genuine entry that the victim does not hold
		w.probes++
		if err := writeAny(w.sa, fmt.Sprintf("fresh%d", w.probes)); err != nil {
			c.Stats.HarnessErrs = append(c.Stats.HarnessErrs, err.Error())
			return
		}
		head := w.sa.OpLog().Heads().Slice()[0].(*entry.Entry)
		valid, _ := json.Marshal(&iface.MessageExchangeHeads{Address: w.addr, Heads: []*entry.Entry{head}})
		var doc map[string]interface{}
		_ = json.Unmarshal(valid, &doc)
		h := doc["heads"].([]interface{})[0].(map[string]interface{})
		for _, mu := range cs.muts {
			if mu[0] == "#address" {
				apply(doc, []string{"address"}, mu[1])
			} else {
				apply(h, strings.Split(mu[0], "."), mu[1])
			}
		}
		corrupted, _ := json.Marshal(doc)
		ok := w.independentlyValid(corrupted)
		w.FeedMessage(corrupted)
		c.Stats.Executions++
		c.Stats.Transitions++
		c.Stats.Checks++
		c.Stats.State("C12|" + a.Entry + "|" + cs.id)
		c.Stats.NontrivialCase(a.Entry + "|" + cs.id)
		if err := sim.Quiesce(); err != nil {
			c.Stats.Violate(explore.Violation{Property: "C12", Signature: "hang-after-malformed-input:" + a.Entry, Detail: cs.id, History: []string{a.Entry + " " + cs.id}})
			return
		}
		_, merged := w.sv.OpLog().Get(head.Hash)
		if merged && !ok {
			c.Stats.Violate(explore.Violation{Property: "C12", Signature: "incomplete-head-merged:" + a.Entry,
				Detail: fmt.Sprintf("%s: the message is not a complete valid announcement (checked independently), yet the victim merged the head it names", cs.id), History: []string{a.Entry + " " + cs.id}})
		}
		c.Stats.Outcome(fmt.Sprintf("independently-valid=%v merged=%v", ok, merged))
		// now the complete message: it must be merged (listener alive), and it is what the next corrupted
		// message follows
		w.FeedMessage(valid)
		_ = sim.Quiesce()
		if _, okm := w.sv.OpLog().Get(head.Hash); !okm {
			c.Stats.Violate(explore.Violation{Property: "C12", Signature: "listener-dead-after-malformed-input:" + a.Entry, Detail: "after " + cs.id + ": the complete announcement was not merged", History: []string{a.Entry + " " + cs.id}})
			return
		}
		w.expected[head.Hash.String()] = true
		c.Flush()
	}
	// well-formed heads, genuinely signed by the allowed writer, whose link cannot be followed to an entry (it
	// names a block that is no entry, or a genuine entry under another codec): the fetch of the link fails
	// inside the replicator. The very next valid announcement must be merged all the same.
	// one message carrying a head whose signature no longer verifies (payload altered, address recomputed) in
	// front of a genuine head the victim does not hold yet: whatever happens to this message, the genuine head
	// announced again on its own must then be merged
	{
		id := "fresh:badsig-head-before-genuine-head"
		run := explore.ReplayOnly == nil && (a.Chunks <= 1 || (len(cases)+7)%a.Chunks == a.Chunk)
		if explore.ReplayOnly != nil && len(explore.ReplayOnly) > 0 && a.Entry+" "+id == explore.ReplayOnly[0] {
			run = true
		}
		if run {
			c.JournalCase(len(cases)+7, a.Entry+" "+id)
			w.probes++
			_ = writeAny(w.sa, fmt.Sprintf("fresh%d", w.probes))
			w.probes++
			_ = writeAny(w.sa, fmt.Sprintf("fresh%d", w.probes))
			genuine := w.sa.OpLog().Heads().Slice()[0].(*entry.Entry)
			bad := *genuine
			bad.Payload = append([]byte{}, genuine.Payload...)
			if len(bad.Payload) > 0 {
				bad.Payload[len(bad.Payload)-1] ^= 1
			}
			if err := Rehash(w.A.Peer.API(), &bad); err == nil {
				mixed, _ := json.Marshal(&iface.MessageExchangeHeads{Address: w.addr, Heads: []*entry.Entry{&bad, genuine}})
				w.FeedMessage(mixed)
				_ = sim.Quiesce()
				alone, _ := json.Marshal(&iface.MessageExchangeHeads{Address: w.addr, Heads: []*entry.Entry{genuine}})
				w.FeedMessage(alone)
				_ = sim.Quiesce()
				c.Stats.Executions++
				c.Stats.Transitions++
				c.Stats.Checks++
				c.Stats.State("C12|" + a.Entry + "|" + id)
				if _, ok := w.sv.OpLog().Get(bad.Hash); ok {
					c.Stats.Violate(explore.Violation{Property: "C12", Signature: "malformed-input-changed-state:" + a.Entry + ":fresh", Detail: id + ": the head with the broken signature was merged", History: []string{a.Entry + " " + id}})
					return
				}
				missing := 0
				for _, e := range w.sa.OpLog().GetEntries().Slice() {
					if _, ok := w.sv.OpLog().Get(e.GetHash()); !ok {
						missing++
					} else {
						w.expected[e.GetHash().String()] = true
					}
				}
				if missing > 0 {
					c.Stats.Violate(explore.Violation{Property: "C12", Signature: "listener-dead-after-malformed-input:" + a.Entry, Detail: fmt.Sprintf("%s: the genuine head announced again on its own was not merged completely (%d entries missing)", id, missing), History: []string{a.Entry + " " + id}})
					return
				}
				c.Flush()
			}
		}
	}
	for k, kind := range []string{"junklink", "aliaslink", "junklink-twice"} {
		id := "fresh:crafted-" + kind
		if explore.ReplayOnly != nil {
			if len(explore.ReplayOnly) == 0 || a.Entry+" "+id != explore.ReplayOnly[0] {
				continue
			}
		} else if a.Chunks > 1 && (len(cases)+k)%a.Chunks != a.Chunk {
			continue
		}
		c.JournalCase(len(cases)+k, a.Entry+" "+id)
		link := w.sa.Address().GetRoot()
		if kind == "aliaslink" {
			link = cid.NewCidV1(cid.Raw, w.sa.OpLog().Heads().Slice()[0].GetHash().Hash())
		}
		rounds := 1
		if kind == "junklink-twice" {
			rounds = 2
		}
		for r := 0; r < rounds; r++ {
			w.probes++
			crafted, err := Forge(w.A.Peer.API(), ForgeSpec{LogID: w.addr, Payload: addPayload(fmt.Sprintf("crafted%d", w.probes)), Time: 1000 + w.probes, Signer: w.A.DB.Identity(), Next: []cid.Cid{link}})
			if err != nil {
				c.Stats.HarnessErrs = append(c.Stats.HarnessErrs, "forge: "+err.Error())
				return
			}
			msg, _ := json.Marshal(&iface.MessageExchangeHeads{Address: w.addr, Heads: []*entry.Entry{crafted}})
			w.FeedMessage(msg)
			if err := sim.Quiesce(); err != nil {
				c.Stats.Violate(explore.Violation{Property: "C12", Signature: "hang-after-malformed-input:" + a.Entry, Detail: id, History: []string{a.Entry + " " + id}})
				return
			}
		}
		c.Stats.Executions++
		c.Stats.Transitions++
		c.Stats.Checks++
		c.Stats.State("C12|" + a.Entry + "|" + id)
		c.Stats.NontrivialCase(a.Entry + "|" + id)
		if msg := w.Unchanged(); msg != "" {
			c.Stats.Violate(explore.Violation{Property: "C12", Signature: "malformed-input-changed-state:" + a.Entry + ":fresh", Detail: id + ": " + msg, History: []string{a.Entry + " " + id}})
			return
		}
		if msg := w.Probe(); msg != "" {
			c.Stats.Violate(explore.Violation{Property: "C12", Signature: "listener-dead-after-malformed-input:" + a.Entry, Detail: "after " + id + ": " + msg, History: []string{a.Entry + " " + id}})
			return
		}
		c.Flush()
	}
}

type C12Arg struct {
	Entry  string
	Family string
	Chunk  int
	Chunks int
}

func (a C12Arg) Name() string {
	return fmt.Sprintf("malformed/%s/%s/chunk%d.%d", a.Entry, a.Family, a.Chunk, a.Chunks)
}

func runC12Unit(c *explore.Ctx) {
	var a C12Arg
	if err := json.Unmarshal([]byte(c.Spec.Unit.Arg), &a); err != nil {
		c.Stats.HarnessErrs = append(c.Stats.HarnessErrs, err.Error())
		return
	}
	w, err := NewMalformedWorld(a.Entry)
	if err != nil {
		c.Stats.HarnessErrs = append(c.Stats.HarnessErrs, err.Error())
		return
	}
	defer w.Close()
	if a.Family == "fresh" {
		runFreshHeadFamily(c, a, w)
		c.Stats.Outcome("survived")
		return
	}
	cases := malFamily(a.Family, w, c.Spec.Tier)
	batch := 1
	if a.Family == "short" {
		batch = 64
	}
	inBatch := 0
	var batchIDs []string
	flush := func(last string) bool {
		if err := sim.Quiesce(); err != nil {
			c.Stats.Violate(explore.Violation{Property: "C12", Signature: "hang-after-malformed-input:" + a.Entry, Detail: "system keeps running after " + last, History: []string{a.Entry + " " + last}})
			return false
		}
		if msg := w.Unchanged(); msg != "" {
			c.Stats.Violate(explore.Violation{Property: "C12", Signature: "malformed-input-changed-state:" + a.Entry + ":" + a.Family, Detail: fmt.Sprintf("after %v: %s", batchIDs, msg), History: []string{a.Entry + " " + last}})
		}
		return true
	}
	sinceProbe := 0
	n := 0
	for idx, cs := range cases {
		if explore.ReplayOnly != nil {
			if len(explore.ReplayOnly) == 0 || a.Entry+" "+cs.id != explore.ReplayOnly[0] {
				continue
			}
		} else if a.Chunks > 1 && idx%a.Chunks != a.Chunk {
			continue
		}
		if idx <= c.Spec.ResumeAfter {
			continue
		}
		if a.Entry != "stream" && !cs.framed {
			continue // raw frames only make sense for the stream adapter
		}
		if c.Expired() {
			c.Stats.CapsHit = append(c.Stats.CapsHit, fmt.Sprintf("%s: time budget reached at case %d of %d", a.Name(), idx, len(cases)))
			break
		}
		c.JournalCase(idx, a.Entry+" "+cs.id)
		if cs.framed {
			w.FeedMessage(cs.raw)
		} else {
			w.Feed(cs.raw)
		}
		n++
		c.Stats.Executions++
		c.Stats.Transitions++
		c.Stats.State("C12|" + a.Entry + "|" + cs.id)
		c.Stats.NontrivialCase(a.Entry + "|" + cs.id)
		if len(c.Stats.Samples) < 4 {
			c.Stats.Sample(fmt.Sprintf("%s <- %s (%d bytes)", a.Entry, cs.id, len(cs.raw)))
		}
		inBatch++
		batchIDs = append(batchIDs, cs.id)
		if inBatch >= batch {
			c.Stats.Checks++
			if !flush(cs.id) {
				return
			}
			inBatch, batchIDs = 0, nil
			sinceProbe++
			if (batch > 1) || sinceProbe >= 64 {
				sinceProbe = 0
				if msg := w.Probe(); msg != "" {
					c.Stats.Violate(explore.Violation{Property: "C12", Signature: "listener-dead-after-malformed-input:" + a.Entry, Detail: fmt.Sprintf("after %s: %s", cs.id, msg), History: []string{a.Entry + " " + cs.id}})
					return
				}
			}
			c.Flush()
		}
	}
	if inBatch > 0 {
		c.Stats.Checks++
		flush("end of unit")
	}
	if n > 0 {
		if msg := w.Probe(); msg != "" {
			c.Stats.Violate(explore.Violation{Property: "C12", Signature: "listener-dead-after-malformed-input:" + a.Entry, Detail: "at end of unit: " + msg, History: []string{a.Entry + " end"}})
		}
	}
	c.Stats.Outcome("survived")
}

func init() {
	explore.Register(&explore.CheckDef{
		ID: "C12", Level: "exploration",
		Rule: "four input families, each enumerated completely and fed to three entry points (topic listener, direct-channel monitor, raw stream frames into the real stream-based direct-channel adapter over an in-memory stream) in crash-isolated workers: (a) every byte string of length <= 2 and every 3-byte string over a 13-symbol JSON alphabet; (b) address x heads shape cross product and every single field and every pair of fields of a real head set to absent/null/wrong type/empty; (c) byte-level mutations of a real message at every position (5 values quick, all 255 thorough) and truncations; (d) frames with boundary, overflowing, over-long and truncated varint lengths x 4 body lengths; (e) every single-field (thorough: pair) corruption of a message announcing a head the victim does not hold yet, each sent right after a complete valid message: a corrupted message that is not a complete valid announcement by an independent check must not bring the head in. Oracle: the worker survives (a crash is attributed to the journalled input), the victim's entries and listing are unchanged, and a fresh valid announcement sent afterwards through the same entry point is merged. Non-trivial = every distinct (entry point, input) pair.",
		Units: func(tier string) []explore.Unit {
			var u []explore.Unit
			for _, e := range []string{"topic", "direct", "stream"} {
				for _, f := range []string{"short", "structure", "bytes", "frames", "fresh"} {
					if f == "frames" && e != "stream" {
						continue
					}
					chunks := 4
					if f == "frames" {
						chunks = 1
					}
					if f == "fresh" {
						chunks = 2
					}
					if tier == "thorough" && f == "bytes" {
						chunks = 12
					}
					for ch := 0; ch < chunks; ch++ {
						a := C12Arg{Entry: e, Family: f, Chunk: ch, Chunks: chunks}
						b, _ := json.Marshal(a)
						u = append(u, explore.Unit{Name: a.Name(), Arg: string(b)})
					}
				}
			}
			return u
		},
		Budget: func(tier string) float64 {
			if tier == "thorough" {
				return 1500
			}
			return 300
		},
		RunUnit: runC12Unit,
		Assumptions: []string{
			"environment is the deterministic simulation in /verif/mc/sim; the stream entry point drives the real directchannel adapter through an in-memory host/stream double",
			"'every byte string' is decided for the stated finite families, chosen around every branch visible in the decoders and the frame length limit",
		},
	})
}
