package scen

import (
	"encoding/json"
	"fmt"
	"regexp"
	"strings"

	orbitdb "berty.tech/go-orbit-db"
	"berty.tech/go-orbit-db/accesscontroller"
	"berty.tech/go-orbit-db/iface"
	"berty.tech/go-orbit-db/stores/basestore"
	"verifmc/explore"
	"verifmc/sim"
)

var digitsRe = regexp.MustCompile(`[0-9]+`)

type c13Case struct {
	Kind  string
	Shape string // empty chain1 chain2 chain3 fork merge replicated inprogress
	Size  int    // payload size of the last local write (0 = small default payloads only)
	Tag   string
}

func (c c13Case) ID() string {
	return fmt.Sprintf("%s shape=%s size=%d%s", c.Kind, c.Shape, c.Size, c.Tag)
}

func bigValue(n int) string { return strings.Repeat("x", n) }

func writeSized(s iface.Store, name string, size int) error {
	v := name
	if size > len(name) {
		v = name + bigValue(size-len(name))
	} else if size >= 0 && size < len(name) {
		v = name[:size]
	}
	return writeAny(s, v)
}

// snapshotState captures what a reloaded store must reproduce.
func snapshotState(s iface.Store) (set []string, obs string) {
	set = sortedStr(hashesOf(s.OpLog().GetEntries().Slice()))
	obs = fmt.Sprintf("values=%x heads=%x view=%x", explore.Hash(strings.Join(hashesOf(s.OpLog().Values().Slice()), ",")),
		explore.Hash(strings.Join(sortedStr(hashesOf(s.OpLog().Heads().Slice())), ",")), explore.Hash(viewAny(s)))
	return
}

func runC13Case(c c13Case) (string, []explore.Violation) {
	var vs []explore.Violation
	bad := func(sig, detail string) {
		vs = append(vs, explore.Violation{Signature: sig, Detail: c.ID() + ": " + detail})
	}
	net := sim.NewNet()
	net.PubSub.AutoDeliver = true
	pPeer := net.AddPeer("P")
	P, err := pPeer.Start(nil)
	if err != nil {
		return "harness: " + err.Error(), nil
	}
	A, _ := net.AddPeer("A").Start(nil)
	defer func() { net.Gates.Enable(nil); net.Gates.ReleaseAll(); _ = A.Close(); _ = sim.Quiesce() }()
	ac := accesscontroller.NewEmptyManifestParams()
	ac.SetAccess("write", []string{P.DB.Identity().ID, A.DB.Identity().ID})
	s, err := P.DB.Create(bg, "db", c.Kind, &orbitdb.CreateDBOptions{AccessController: ac, Replicate: boolp(false)})
	if err != nil {
		return "harness: " + err.Error(), nil
	}
	addr := s.Address().String()
	sa, _ := A.DB.Open(bg, addr, &orbitdb.CreateDBOptions{Replicate: boolp(false)})
	syncA := func() {
		hs, _ := WireCopy(addr, sa.OpLog().Heads().Slice())
		_ = s.Sync(bg, hs)
		_ = sim.Quiesce()
	}
	size := c.Size
	last := func(st iface.Store, name string) {
		if err := writeSized(st, name, size); err != nil {
			bad("harness-write-failed", err.Error())
		}
	}
	switch c.Shape {
	case "empty":
	case "chain1":
		last(s, "r1")
	case "chain2":
		_ = writeAny(s, "r1")
		last(s, "r2")
	case "chain3":
		_ = writeAny(s, "r1")
		_ = writeAny(s, "r2")
		last(s, "r3")
	case "chain10", "chain200":
		// long logs: the snapshot file spans several unixfs chunks and read buffers although every entry is small
		k := 10
		if c.Shape == "chain200" {
			k = 200
		}
		for j := 1; j < k; j++ {
			if err := writeSized(s, fmt.Sprintf("r%d", j), size); err != nil {
				bad("harness-write-failed", err.Error())
			}
		}
		last(s, fmt.Sprintf("r%d", k))
	case "fork":
		last(s, "r1")
		_ = writeAny(sa, "a1")
		syncA()
	case "merge":
		_ = writeAny(s, "r1")
		_ = writeAny(sa, "a1")
		syncA()
		last(s, "r2")
	case "replicated":
		_ = writeAny(sa, "a1")
		last(sa, "a2")
		syncA()
	case "inprogress":
		last(s, "r1")
		_ = writeAny(sa, "a1")
		_ = writeAny(sa, "a2")
		net.Gates.Enable(func(kind, peer, key, caller string) bool { return kind == "dag.get" && peer == "P" })
		hs, _ := WireCopy(addr, sa.OpLog().Heads().Slice())
		_ = s.Sync(bg, hs)
		_ = sim.Quiesce()
	}
	_ = sim.Quiesce()
	call := async("SaveSnapshot", func() error { _, err := basestore.SaveSnapshot(bg, s); return err })
	if err := sim.Quiesce(); err != nil || !call.finished() {
		bad("snapshot-save-hangs", "SaveSnapshot has not returned at quiescence")
		return "hang", vs
	}
	savedSet, savedObs := snapshotState(s)
	net.Gates.Enable(nil)
	for i := 0; i < 20 && net.Gates.ReleaseAll() > 0; i++ {
		_ = sim.Quiesce()
	}
	_ = sim.Quiesce()
	if call.err != nil {
		_ = P.Close()
		_ = sim.Quiesce()
		return "save refused: " + digitsRe.ReplaceAllString(firstLine(call.err.Error()), "N"), vs
	}
	_ = P.Close()
	_ = sim.Quiesce()
	P2, err := pPeer.Start(nil)
	if err != nil {
		return "harness: " + err.Error(), nil
	}
	defer func() { _ = P2.Close(); _ = sim.Quiesce() }()
	s2, err := P2.DB.Open(bg, addr, &orbitdb.CreateDBOptions{Replicate: boolp(false)})
	if err != nil {
		return "harness: " + err.Error(), nil
	}
	lcall := async("LoadFromSnapshot", func() error { return s2.LoadFromSnapshot(bg) })
	if err := sim.Quiesce(); err != nil || !lcall.finished() {
		bad("snapshot-load-hangs", "LoadFromSnapshot has not returned at quiescence")
		return "hang", vs
	}
	if lcall.err != nil {
		bad("saved-snapshot-does-not-load", fmt.Sprintf("SaveSnapshot succeeded but LoadFromSnapshot fails: %s", firstLine(lcall.err.Error())))
		return "load failed", vs
	}
	gotSet, gotObs := snapshotState(s2)
	if c.Shape == "inprogress" {
		have := map[string]bool{}
		for _, h := range gotSet {
			have[h] = true
		}
		for _, h := range savedSet {
			if !have[h] {
				bad("snapshot-reload-misses-entries", fmt.Sprintf("saved %d entries, reloaded %d", len(savedSet), len(gotSet)))
				break
			}
		}
		return fmt.Sprintf("ok saved=%d reloaded=%d", len(savedSet), len(gotSet)), vs
	}
	if strings.Join(gotSet, ",") != strings.Join(savedSet, ",") {
		bad("snapshot-reload-differs:entries", fmt.Sprintf("saved %d entries, reloaded %d", len(savedSet), len(gotSet)))
	} else if gotObs != savedObs {
		bad("snapshot-reload-differs:state", fmt.Sprintf("saved %s reloaded %s", savedObs, gotObs))
	}
	return fmt.Sprintf("ok entries=%d", len(savedSet)), vs
}

// entryJSONLen measures the marshalled size of an event-log entry (and of a one-head snapshot header)
// whose value has the given size, using the real store.
func entryJSONLen(size int) (entryLen, headerLen int) {
	net := sim.NewNet()
	P, err := net.AddPeer("P").Start(nil)
	if err != nil {
		return 0, 0
	}
	defer func() { _ = P.Close(); _ = sim.Quiesce() }()
	s, err := P.DB.Log(bg, "db", &orbitdb.CreateDBOptions{Replicate: boolp(false)})
	if err != nil {
		return 0, 0
	}
	if err := writeSized(s, "r1", size); err != nil {
		return 0, 0
	}
	e := s.OpLog().Heads().Slice()[0]
	b, _ := json.Marshal(e)
	h, _ := json.Marshal(map[string]interface{}{"id": s.OpLog().GetID(), "heads": []interface{}{e}, "size": 1, "type": "eventlog"})
	return len(b), len(h)
}

// crossing finds the smallest value size whose marshalled length (entry or header) exceeds limit.
func crossing(limit int, header bool) int {
	lo, hi := 0, 80000
	for lo < hi {
		mid := (lo + hi) / 2
		e, h := entryJSONLen(mid)
		v := e
		if header {
			v = h
		}
		if v > limit {
			hi = mid
		} else {
			lo = mid + 1
		}
	}
	return lo
}

func c13Cases(tier string) []c13Case {
	var out []c13Case
	shapes := []string{"empty", "chain1", "chain2", "chain3", "fork", "merge", "replicated", "inprogress"}
	landmarks := []int{0, 1, 100, 4096, 30000, 65535, 65536, 102400, 147000, 147400, 147500, 307200}
	for _, k := range []string{"eventlog", "keyvalue", "docstore"} {
		for _, sh := range shapes {
			for _, sz := range landmarks {
				if sh == "empty" && sz != 0 {
					continue
				}
				out = append(out, c13Case{Kind: k, Shape: sh, Size: sz})
			}
		}
	}
	// file sizes beyond one unixfs chunk / read buffer (256 KiB) with entries that each fit the 16-bit length
	for _, k := range []string{"eventlog", "keyvalue", "docstore"} {
		for _, sz := range []int{20000, 30000} {
			out = append(out, c13Case{Kind: k, Shape: "chain10", Size: sz})
		}
	}
	out = append(out, c13Case{Kind: "eventlog", Shape: "chain200", Size: 16})
	// windows of +-70 value sizes (step 1) around the sizes at which the marshalled entry and the marshalled
	// header cross 65535 bytes (found by measuring, because values are base64-encoded twice on the way)
	ce, ch := crossing(65535, false), crossing(65535, true)
	span := 70
	if tier != "thorough" {
		span = 12
	}
	for _, c := range []struct {
		at  int
		tag string
	}{{ce, " (entry crossing)"}, {ch, " (header crossing)"}} {
		for d := -span; d <= span; d++ {
			for _, sh := range []string{"chain1", "merge"} {
				out = append(out, c13Case{Kind: "eventlog", Shape: sh, Size: c.at + d, Tag: c.tag})
			}
		}
	}
	return out
}

func init() {
	explore.Register(&explore.CheckDef{
		ID: "C13", Level: "exploration",
		Rule:   "cross product on fresh worlds, crash-isolated: log shape {empty, chain 1..3, fork, two-writer merge, replicated only, replication in progress (fetch parked while saving)} x store type (plus chains of 10 entries of 20000 / 30000 bytes and of 200 small entries: snapshot files of several unixfs chunks) x payload-size landmarks {0,1,100,4Ki,30000,65535,65536,100Ki, three sizes that put the snapshot file around the 262144-byte unixfs chunk boundary, 300Ki}, plus windows of consecutive payload sizes (step 1; +-12 quick, +-70 thorough) around the measured sizes at which the marshalled entry and the marshalled header cross 65535 bytes, on two shapes. SaveSnapshot, restart the instance on the same cache and blockstore, LoadFromSnapshot. Oracle: a save error passes; otherwise the reload must succeed and reproduce entry set, ordered list, heads and view (superset for the in-progress shape); a panic or hang is a violation. Saving while the database changes: SaveSnapshot is given the real store behind a wrapper that counts its log calls; a whole local write, a whole replication merge of two remote entries, or both, run before any chosen call (every call, every ordered pair of calls); a successful save must then reload, contain everything held before saving began, nothing that was never written, be closed under ancestry, and show the view of its own log. Storage faults: each of the cache writes SaveSnapshot makes fails in turn (with and without an older snapshot in place): the save reports the error, or a fresh instance reloads exactly what was saved. Non-trivial = cases with payload size >= 4096 or a non-chain shape.",
		Units:  func(tier string) []explore.Unit { return explore.ChunkUnits("c13-"+tier, 16) },
		Budget: func(tier string) float64 { return 500 },
		RunUnit: func(c *explore.Ctx) {
			prefix, i, n := explore.ParseChunk(c.Spec.Unit.Arg)
			var cases []explore.Case
			for _, cs := range c13Cases(strings.TrimPrefix(prefix, "c13-")) {
				cs := cs
				cases = append(cases, explore.Case{ID: cs.ID(), Nontrivial: cs.Size >= 4096 || !strings.HasPrefix(cs.Shape, "chain"), Run: func() (string, []explore.Violation) { return runC13Case(cs) }})
			}
			for _, cc := range c13ConcCases() {
				cc := cc
				cases = append(cases, explore.Case{ID: cc.ID(), Nontrivial: true, Run: func() (string, []explore.Violation) {
					_, out, vs := runC13Concurrent(cc)
					return out, vs
				}})
			}
			for _, k := range []string{"eventlog", "keyvalue", "docstore"} {
				for failing := 1; failing <= 3; failing++ {
					for _, older := range []bool{false, true} {
						k, failing, older := k, failing, older
						cases = append(cases, explore.Case{ID: fmt.Sprintf("%s save with cache write %d failing older=%v", k, failing, older), Nontrivial: true,
							Run: func() (string, []explore.Violation) { return runC13SaveFault(k, failing, older) }})
					}
				}
			}
			explore.RunCases(c, "C13", cases, i, n)
		},
		Assumptions: []string{
			"environment is the deterministic simulation in /verif/mc/sim; unixfs files are built and read by boxo's real importer and reader over the simulated DAG",
			"payload sizes are a boundary family chosen around every length limit visible in the snapshot code, not every integer",
		},
	})
}
