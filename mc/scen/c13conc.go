package scen

import (
	"fmt"
	"strings"

	ipfslog "berty.tech/go-ipfs-log"
	"berty.tech/go-ipfs-log/iface"
	orbitdb "berty.tech/go-orbit-db"
	"berty.tech/go-orbit-db/accesscontroller"
	oiface "berty.tech/go-orbit-db/iface"
	"berty.tech/go-orbit-db/stores/basestore"
	"verifmc/explore"
	"verifmc/sim"
)

// Saving a snapshot while the database changes ("replication in progress", concurrent local writes):
// SaveSnapshot takes no lock, it reads the log through several calls. The harness hands it the real store
// behind a wrapper whose log counts those calls; at a chosen call a whole write or a whole replication merge
// runs before the call is answered — exactly the schedules in which the other thread runs to completion
// inside one window of the saver. Every window (and every pair of windows for two changes) is enumerated.

type countingLog struct {
	ipfslog.Log
	hit func(method string)
}

func (l *countingLog) Heads() iface.IPFSLogOrderedEntries { l.hit("Heads"); return l.Log.Heads() }
func (l *countingLog) GetEntries() iface.IPFSLogOrderedEntries {
	l.hit("GetEntries")
	return l.Log.GetEntries()
}
func (l *countingLog) Values() iface.IPFSLogOrderedEntries { l.hit("Values"); return l.Log.Values() }
func (l *countingLog) Len() int                            { l.hit("Len"); return l.Log.Len() }
func (l *countingLog) RawHeads() iface.IPFSLogOrderedEntries {
	l.hit("RawHeads")
	return l.Log.RawHeads()
}

type snapshotStore struct {
	oiface.Store
	log *countingLog
}

func (s *snapshotStore) OpLog() ipfslog.Log { return s.log }

type c13ConcCase struct {
	Kind string
	Ops  []string // "write" | "merge": the changes, in order
	At   []int    // the saver's log call (1-based) before which each change runs
}

func (c c13ConcCase) ID() string {
	return fmt.Sprintf("%s save while changing: %s at log calls %v", c.Kind, strings.Join(c.Ops, "+"), c.At)
}

// runC13Concurrent returns the number of log calls the saver made (for the enumeration) and the verdict.
func runC13Concurrent(c c13ConcCase) (int, string, []explore.Violation) {
	var vs []explore.Violation
	bad := func(sig, detail string) {
		vs = append(vs, explore.Violation{Signature: sig, Detail: c.ID() + ": " + detail})
	}
	net := sim.NewNet()
	net.PubSub.AutoDeliver = true
	pPeer := net.AddPeer("P")
	P, err := pPeer.Start(nil)
	if err != nil {
		return 0, "harness: " + err.Error(), nil
	}
	A, _ := net.AddPeer("A").Start(nil)
	defer func() { _ = A.Close(); _ = sim.Quiesce() }()
	ac := accesscontroller.NewEmptyManifestParams()
	ac.SetAccess("write", []string{P.DB.Identity().ID, A.DB.Identity().ID})
	s, err := P.DB.Create(bg, "db", c.Kind, &orbitdb.CreateDBOptions{AccessController: ac, Replicate: boolp(false)})
	if err != nil {
		return 0, "harness: " + err.Error(), nil
	}
	addr := s.Address().String()
	sa, _ := A.DB.Open(bg, addr, &orbitdb.CreateDBOptions{Replicate: boolp(false)})
	_ = writeAny(s, "r1")
	_ = writeAny(s, "r2")
	_ = writeAny(sa, "a1")
	_ = writeAny(sa, "a2")
	_ = sim.Quiesce()
	pre := map[string]bool{}
	for _, h := range hashesOf(s.OpLog().GetEntries().Slice()) {
		pre[h] = true
	}
	calls, nw := 0, 0
	change := func(op string) {
		switch op {
		case "write":
			nw++
			if err := writeAny(s, fmt.Sprintf("w%d", nw)); err != nil {
				bad("harness-write-failed", err.Error())
			}
		case "merge":
			hs, _ := WireCopy(addr, sa.OpLog().Heads().Slice())
			_ = s.Sync(bg, hs)
		}
		_ = sim.Quiesce()
	}
	wrapped := &snapshotStore{Store: s}
	wrapped.log = &countingLog{Log: s.OpLog(), hit: func(string) {
		calls++
		for i, at := range c.At {
			if at == calls {
				change(c.Ops[i])
			}
		}
	}}
	_, serr := basestore.SaveSnapshot(bg, wrapped)
	_ = sim.Quiesce()
	post := map[string]bool{}
	for _, h := range hashesOf(s.OpLog().GetEntries().Slice()) {
		post[h] = true
	}
	_ = P.Close()
	_ = sim.Quiesce()
	if serr != nil {
		return calls, "save refused: " + digitsRe.ReplaceAllString(firstLine(serr.Error()), "N"), vs
	}
	P2, err := pPeer.Start(nil)
	if err != nil {
		return calls, "harness: " + err.Error(), nil
	}
	defer func() { _ = P2.Close(); _ = sim.Quiesce() }()
	s2, err := P2.DB.Open(bg, addr, &orbitdb.CreateDBOptions{Replicate: boolp(false)})
	if err != nil {
		return calls, "harness: " + err.Error(), nil
	}
	lcall := async("LoadFromSnapshot", func() error { return s2.LoadFromSnapshot(bg) })
	if err := sim.Quiesce(); err != nil || !lcall.finished() {
		bad("snapshot-load-hangs", "LoadFromSnapshot has not returned at quiescence")
		return calls, "hang", vs
	}
	if lcall.err != nil {
		bad("snapshot-saved-during-change-does-not-load", fmt.Sprintf("SaveSnapshot succeeded but LoadFromSnapshot fails: %s", firstLine(lcall.err.Error())))
		return calls, "load failed", vs
	}
	// the reloaded database is some state the database went through while it was being saved
	got := map[string]bool{}
	all := s2.OpLog().GetEntries().Slice()
	for _, e := range all {
		got[e.GetHash().String()] = true
	}
	for h := range pre {
		if !got[h] {
			bad("snapshot-saved-during-change-misses-earlier-entries", fmt.Sprintf("%s was in the database before saving began", short4(h)))
			break
		}
	}
	for h := range got {
		if !post[h] {
			bad("snapshot-saved-during-change-has-unknown-entry", short4(h))
			break
		}
	}
	for _, e := range all {
		for _, n := range e.GetNext() {
			if !got[n.String()] {
				bad("snapshot-saved-during-change-not-closed-under-ancestry", fmt.Sprintf("%s is loaded without its predecessor %s", short4(e.GetHash().String()), short4(n.String())))
			}
		}
	}
	if len(s2.OpLog().Values().Slice()) != len(all) {
		bad("snapshot-saved-during-change-lists-fewer-entries-than-loaded", fmt.Sprintf("%d loaded, %d listed", len(all), len(s2.OpLog().Values().Slice())))
	}
	if msg := viewVsReplay(s2); msg != "" {
		bad("snapshot-saved-during-change-view-differs-from-log", msg)
	}
	return calls, fmt.Sprintf("ok pre=%d reloaded=%d post=%d", len(pre), len(got), len(post)), vs
}

// c13ConcCases enumerates one change at every log call of the saver, and two changes at every ordered pair.
func c13ConcCases() []c13ConcCase {
	var out []c13ConcCase
	for _, k := range []string{"eventlog", "keyvalue", "docstore"} {
		n, _, _ := runC13Concurrent(c13ConcCase{Kind: k})
		for _, op := range []string{"write", "merge"} {
			for at := 1; at <= n; at++ {
				out = append(out, c13ConcCase{Kind: k, Ops: []string{op}, At: []int{at}})
			}
		}
		for a := 1; a <= n; a++ {
			for b := a; b <= n; b++ {
				out = append(out, c13ConcCase{Kind: k, Ops: []string{"write", "merge"}, At: []int{a, b}})
				out = append(out, c13ConcCase{Kind: k, Ops: []string{"merge", "write"}, At: []int{a, b}})
			}
		}
	}
	return out
}

// runC13SaveFault: the k-th write to the store's cache made by SaveSnapshot fails (k = 1, 2); there was an
// older snapshot or not. Saving must report the error; if it reports success, a fresh instance must
// reconstruct exactly the database that was saved.
func runC13SaveFault(kind string, failing int, older bool) (string, []explore.Violation) {
	id := fmt.Sprintf("%s save with cache write %d failing (older snapshot present: %v)", kind, failing, older)
	var vs []explore.Violation
	bad := func(sig, detail string) { vs = append(vs, explore.Violation{Signature: sig, Detail: id + ": " + detail}) }
	net := sim.NewNet()
	net.PubSub.AutoDeliver = true
	pPeer := net.AddPeer("P")
	P, err := pPeer.Start(nil)
	if err != nil {
		return "harness: " + err.Error(), nil
	}
	s, err := P.DB.Create(bg, "db", kind, &orbitdb.CreateDBOptions{Replicate: boolp(false)})
	if err != nil {
		return "harness: " + err.Error(), nil
	}
	addr := s.Address().String()
	_ = writeAny(s, "r1")
	_ = writeAny(s, "r2")
	if older {
		if _, err := basestore.SaveSnapshot(bg, s); err != nil {
			return "harness: first save failed: " + err.Error(), nil
		}
		_ = writeAny(s, "r3")
		_ = writeAny(s, "r4")
	}
	_ = sim.Quiesce()
	puts := 0
	net.Gates.Enable(func(kind, p, key, caller string) bool { return kind == "cache.put" && p == "P" })
	call := async("SaveSnapshot", func() error { _, err := basestore.SaveSnapshot(bg, s); return err })
	for i := 0; i < 50; i++ {
		_ = sim.Quiesce()
		parked := net.Gates.Parked()
		if len(parked) == 0 {
			break
		}
		for _, l := range parked {
			puts++
			ans := sim.AnswerOK
			if puts == failing {
				ans = sim.AnswerFail
			}
			_ = net.Gates.Release(l, ans)
		}
	}
	net.Gates.Enable(nil)
	_ = sim.Quiesce()
	if !call.finished() {
		bad("snapshot-save-hangs", "SaveSnapshot has not returned")
		return "hang", vs
	}
	savedSet, savedObs := snapshotState(s)
	_ = P.Close()
	_ = sim.Quiesce()
	if puts < failing {
		return fmt.Sprintf("skipped: the save makes only %d cache writes", puts), nil
	}
	if call.err != nil {
		return "save reported the fault", vs
	}
	P2, err := pPeer.Start(nil)
	if err != nil {
		return "harness: " + err.Error(), nil
	}
	defer func() { _ = P2.Close(); _ = sim.Quiesce() }()
	s2, err := P2.DB.Open(bg, addr, &orbitdb.CreateDBOptions{Replicate: boolp(false)})
	if err != nil {
		return "harness: " + err.Error(), nil
	}
	if err := s2.LoadFromSnapshot(bg); err != nil {
		bad("saved-snapshot-does-not-load", "SaveSnapshot reported success although one of its cache writes failed, and a fresh instance cannot load it: "+firstLine(err.Error()))
		return "load failed", vs
	}
	_ = sim.Quiesce()
	gotSet, gotObs := snapshotState(s2)
	if strings.Join(gotSet, ",") != strings.Join(savedSet, ",") || gotObs != savedObs {
		bad("snapshot-reload-differs:entries", fmt.Sprintf("SaveSnapshot reported success although one of its cache writes failed; saved %d entries, a fresh instance reloads %d", len(savedSet), len(gotSet)))
	}
	return "save succeeded and reloads", vs
}
