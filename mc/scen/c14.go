package scen

import (
	"fmt"
	"sort"
	"strings"

	orbitdb "berty.tech/go-orbit-db"
	"berty.tech/go-orbit-db/accesscontroller"
	"berty.tech/go-orbit-db/address"
	"berty.tech/go-orbit-db/iface"
	"verifmc/explore"
	"verifmc/sim"
)

type addrWorld struct {
	net   *sim.Net
	P     []*sim.Instance
	other iface.Store // an unrelated database whose manifest cid is used in hostile names
}

func newAddrWorld() (*addrWorld, error) {
	w := &addrWorld{net: sim.NewNet()}
	w.net.PubSub.AutoDeliver = true
	for _, n := range []string{"P0", "P1", "P2"} {
		inst, err := w.net.AddPeer(n).Start(nil)
		if err != nil {
			return nil, err
		}
		w.P = append(w.P, inst)
	}
	var err error
	w.other, err = w.P[1].DB.Create(bg, "unrelated", "keyvalue", &orbitdb.CreateDBOptions{Replicate: boolp(false)})
	return w, err
}

func (w *addrWorld) close() {
	for _, p := range w.P {
		_ = p.Close()
	}
	_ = sim.Quiesce()
}

func (w *addrWorld) names() []string {
	oc := w.other.Address().GetRoot().String()
	return []string{"db", "DB", "db ", " db", "my database", "a/b/c", "a//b", "", ".", "..", "a.b", "a/./b", "a/../b", "../x", "x/..", "x/../..", "ünïcödé-名前", "emoji-🙂",
		"line\nbreak", "tab\tname", "percent%20name", "q?x=1#frag", oc, oc + "/y", "/orbitdb/" + oc + "/y", "orbitdb/" + oc, "x/../../" + oc + "/y", "../" + oc, "../" + oc + "/unrelated", "x/" + oc,
		strings.Repeat("n", 300),
		// rooted and doubled variants of the parent-segment names (path.Clean drops ".." at the root of a rooted path)
		"/../" + oc + "/y", "/../../" + oc, "//../" + oc + "/y", "/./../" + oc + "/y", "/x/../../" + oc + "/y", "/a", "/a/b/", "a/", "./a", "/.."}
}

// c14NameCount is the size of the name family (the world is needed to build the names themselves).
const c14NameCount = 41

var c14Types = []string{"eventlog", "keyvalue", "docstore"}
var c14Lists = []string{"none", "self", "A", "A,B", "B,A", "*", "A,*", "*,B", "A,A"}

func (w *addrWorld) params(list string, self int) (accesscontroller.ManifestParams, []string) {
	ids := map[string]string{"A": w.P[1].DB.Identity().ID, "B": w.P[2].DB.Identity().ID, "*": "*", "self": w.P[self].DB.Identity().ID}
	if list == "none" {
		return nil, []string{w.P[self].DB.Identity().ID}
	}
	var l []string
	for _, x := range strings.Split(list, ",") {
		l = append(l, ids[x])
	}
	ac := accesscontroller.NewEmptyManifestParams()
	ac.SetAccess("write", l)
	return ac, l
}

func (w *addrWorld) determine(peer int, name, typ, list string, self int) (address.Address, error) {
	ac, _ := w.params(list, self)
	return w.P[peer].DB.DetermineAddress(bg, name, typ, &orbitdb.DetermineAddressOptions{AccessController: ac})
}

func runC14Name(nameIdx int) (string, []explore.Violation) {
	w, err := newAddrWorld()
	if err != nil {
		return "harness: " + err.Error(), nil
	}
	defer w.close()
	name := w.names()[nameIdx]
	var vs []explore.Violation
	label := func(typ, list string) string { return fmt.Sprintf("name=%q type=%s list=%s", name, typ, list) }
	accepted := 0
	for _, typ := range c14Types {
		for _, list := range c14Lists {
			bad := func(sig, detail string) {
				vs = append(vs, explore.Violation{Signature: sig, Detail: label(typ, list) + ": " + detail, History: []string{label(typ, list)}})
			}
			a0, err0 := w.determine(0, name, typ, list, 0)
			if err0 != nil {
				continue // not an input Create accepts
			}
			// determinism across peers (for "none"/"self" the creator's id is made explicit on the other peers)
			for p := 1; p < 3; p++ {
				l := list
				ac, _ := w.params(l, 0)
				if l == "none" || l == "self" {
					ac = accesscontroller.NewEmptyManifestParams()
					ac.SetAccess("write", []string{w.P[0].DB.Identity().ID})
				}
				ap, err := w.P[p].DB.DetermineAddress(bg, name, typ, &orbitdb.DetermineAddressOptions{AccessController: ac})
				if err != nil {
					bad("address-determination-differs-between-peers", fmt.Sprintf("peer %d: %v", p, err))
				} else if ap.String() != a0.String() {
					bad("address-differs-between-peers", fmt.Sprintf("%s vs %s", a0, ap))
				}
			}
			// printed address parses back to the same root and path
			parsed, err := address.Parse(a0.String())
			if err != nil {
				bad("printed-address-does-not-parse", err.Error())
			} else if !parsed.GetRoot().Equals(a0.GetRoot()) || parsed.GetPath() != a0.GetPath() {
				bad("address-round-trip-differs", fmt.Sprintf("%s/%s vs %s/%s", a0.GetRoot(), a0.GetPath(), parsed.GetRoot(), parsed.GetPath()))
			}
			// create, then open on another peer
			ac, wantList := w.params(list, 0)
			s, err := w.P[0].DB.Create(bg, name, typ, &orbitdb.CreateDBOptions{AccessController: ac, Replicate: boolp(false)})
			if err != nil {
				continue // restricted to inputs Create accepts
			}
			accepted++
			if s.Address().String() != a0.String() {
				bad("created-address-differs-from-determined", fmt.Sprintf("%s vs %s", s.Address(), a0))
			}
			checkStore := func(who string, st iface.Store) {
				if st.Type() != typ {
					bad("opened-store-has-another-type", fmt.Sprintf("%s: Type()=%s", who, st.Type()))
				}
				got, _ := st.AccessController().GetAuthorizedByRole("write")
				g, wl := append([]string{}, got...), append([]string{}, wantList...)
				sort.Strings(g)
				sort.Strings(wl)
				if strings.Join(g, ",") != strings.Join(wl, ",") {
					bad("opened-store-has-another-write-list", fmt.Sprintf("%s: %d ids, expected %d", who, len(got), len(wantList)))
				}
			}
			checkStore("creator", s)
			// local-only open of a database the third peer has never seen must be refused
			if _, err := w.P[2].DB.Open(bg, a0.String(), &orbitdb.CreateDBOptions{LocalOnly: boolp(true), Replicate: boolp(false)}); err == nil {
				bad("local-only-open-of-unknown-database-succeeded", "")
			}
			// ... whatever else the options say (Create is meaningless for an address), and through the typed openers
			if _, err := w.P[2].DB.Open(bg, a0.String(), &orbitdb.CreateDBOptions{LocalOnly: boolp(true), Create: boolp(true), Replicate: boolp(false)}); err == nil {
				bad("local-only-open-of-unknown-database-succeeded:create-set", "")
			}
			var terr error
			switch typ {
			case "eventlog":
				_, terr = w.P[2].DB.Log(bg, a0.String(), &orbitdb.CreateDBOptions{LocalOnly: boolp(true), Replicate: boolp(false)})
			case "keyvalue":
				_, terr = w.P[2].DB.KeyValue(bg, a0.String(), &orbitdb.CreateDBOptions{LocalOnly: boolp(true), Replicate: boolp(false)})
			case "docstore":
				_, terr = w.P[2].DB.Docs(bg, a0.String(), &orbitdb.CreateDBOptions{LocalOnly: boolp(true), Replicate: boolp(false)})
			}
			if terr == nil {
				bad("local-only-open-of-unknown-database-succeeded:typed-opener", typ)
			}
			s1, err := w.P[1].DB.Open(bg, a0.String(), &orbitdb.CreateDBOptions{Replicate: boolp(false)})
			if err != nil {
				bad("open-on-another-peer-failed", err.Error())
			} else {
				checkStore("other peer", s1)
				_ = s1.Close()
			}
			// creating over the existing local database is refused unless overwrite is requested
			_ = s.Close()
			ac2, _ := w.params(list, 0)
			if _, err := w.P[0].DB.Create(bg, name, typ, &orbitdb.CreateDBOptions{AccessController: ac2, Replicate: boolp(false)}); err == nil {
				bad("create-over-existing-database-succeeded", "")
			}
			// ... also when the call names another directory for the new store's files: what exists is decided
			// by the instance's own records
			otherDir := "another-directory"
			ac2b, _ := w.params(list, 0)
			if _, err := w.P[0].DB.Create(bg, name, typ, &orbitdb.CreateDBOptions{AccessController: ac2b, Replicate: boolp(false), Directory: &otherDir}); err == nil {
				bad("create-over-existing-database-succeeded:directory-option", "")
			}
			ac3, _ := w.params(list, 0)
			s3, err := w.P[0].DB.Create(bg, name, typ, &orbitdb.CreateDBOptions{AccessController: ac3, Replicate: boolp(false), Overwrite: boolp(true)})
			if err != nil {
				bad("create-with-overwrite-refused", err.Error())
			} else {
				_ = s3.Close()
			}
		}
	}
	return fmt.Sprintf("accepted %d of %d", accepted, len(c14Types)*len(c14Lists)), vs
}

// runC14SharedOptions: one options value reused for several Open/Create calls must not carry anything from
// one database to the next.
func runC14SharedOptions() (string, []explore.Violation) {
	w, err := newAddrWorld()
	if err != nil {
		return "harness: " + err.Error(), nil
	}
	defer w.close()
	var vs []explore.Violation
	n := 0
	for _, typ := range c14Types {
		lists := []string{"A", "B,A", "*", "self"}
		var addrs []string
		want := map[string][]string{}
		for i, l := range lists {
			ac, wl := w.params(l, 0)
			s, err := w.P[0].DB.Create(bg, fmt.Sprintf("shared-%s-%d", typ, i), typ, &orbitdb.CreateDBOptions{AccessController: ac, Replicate: boolp(false)})
			if err != nil {
				return "harness: " + err.Error(), nil
			}
			addrs = append(addrs, s.Address().String())
			want[s.Address().String()] = wl
			_ = s.Close()
		}
		// every order of two databases through ONE options value, on another peer
		for i := range addrs {
			for j := range addrs {
				if i == j {
					continue
				}
				shared := &orbitdb.CreateDBOptions{Replicate: boolp(false)}
				for _, a := range []string{addrs[i], addrs[j]} {
					st, err := w.P[1].DB.Open(bg, a, shared)
					if err != nil {
						vs = append(vs, explore.Violation{Signature: "open-with-reused-options-failed", Detail: err.Error(), History: []string{"shared options"}})
						continue
					}
					n++
					got, _ := st.AccessController().GetAuthorizedByRole("write")
					g, wl := append([]string{}, got...), append([]string{}, want[a]...)
					sort.Strings(g)
					sort.Strings(wl)
					if st.Type() != typ || strings.Join(g, ",") != strings.Join(wl, ",") {
						vs = append(vs, explore.Violation{Signature: "reused-options-leak-between-databases",
							Detail: fmt.Sprintf("type %s: opening list #%d after list #%d through one options value: type=%s, %d writers, expected %d", typ, j, i, st.Type(), len(got), len(want[a])), History: []string{"shared options"}})
					}
					_ = st.Close()
				}
			}
		}
	}
	return fmt.Sprintf("opens=%d", n), vs
}

// runC14Uniqueness: pairwise different inputs give different addresses (over the whole enumerated set).
func runC14Uniqueness() (string, []explore.Violation) {
	w, err := newAddrWorld()
	if err != nil {
		return "harness: " + err.Error(), nil
	}
	defer w.close()
	var vs []explore.Violation
	seen := map[string]string{}
	n := 0
	for _, name := range w.names() {
		for _, typ := range c14Types {
			for _, list := range c14Lists {
				a, err := w.determine(0, name, typ, list, 0)
				if err != nil {
					continue
				}
				n++
				_, ids := w.params(list, 0)
				sorted := append([]string{}, ids...)
				sort.Strings(sorted)
				input := fmt.Sprintf("name=%q type=%s writers=%s", name, typ, strings.Join(sorted, "+"))
				if prev, ok := seen[a.String()]; ok && prev != input {
					vs = append(vs, explore.Violation{Signature: "different-inputs-same-address",
						Detail: fmt.Sprintf("%s and %s both give %s", prev, input, a), History: []string{prev, input}})
				}
				seen[a.String()] = input
				// the root must be the manifest of exactly these inputs: another peer determining the address of
				// the same inputs gets the same root, and the root is not that of an unrelated database
				if a.GetRoot().Equals(w.other.Address().GetRoot()) {
					vs = append(vs, explore.Violation{Signature: "address-points-at-another-databases-manifest",
						Detail: fmt.Sprintf("%s yields %s, whose root is the manifest of the unrelated database %s", input, a, w.other.Address()), History: []string{input}})
				}
			}
		}
	}
	return fmt.Sprintf("addresses=%d distinct=%d", n, len(seen)), vs
}

func init() {
	explore.Register(&explore.CheckDef{
		ID: "C14", Level: "exploration",
		Rule:   "full cross product: 41 names (ascii, rooted and trailing-slash forms, case, spaces, nested, empty, dot and parent-directory segments, unicode, control characters, names that are or contain the manifest address of another database, 300 characters) x 3 registered types x 9 write lists (none, creator, one id, two ids in both orders, wildcard, wildcard next to an id in both positions, a repeated id) on three peers with different identities; restricted to inputs DetermineAddress/Create accept. Oracle: same inputs give the same address on every peer; pairwise different inputs give different addresses (all pairs of the enumerated set) and never the root of an unrelated database; the printed address parses back to the same root and path; Create returns the determined address; Open on another peer yields the recorded type and the given write list; local-only open of an unknown database (plain, with Create set, and through the typed openers) and Create over an existing one (also with a Directory option naming another directory) are refused, Create with overwrite succeeds; every ordered pair of 4 databases with different write lists opened through one reused options value keeps its own type and list. Non-trivial = accepted inputs other than the plain name.",
		Units:  func(tier string) []explore.Unit { return explore.ChunkUnits("c14", 16) },
		Budget: func(tier string) float64 { return 400 },
		RunUnit: func(c *explore.Ctx) {
			_, i, n := explore.ParseChunk(c.Spec.Unit.Arg)
			var cases []explore.Case
			for k := 0; k < c14NameCount; k++ {
				k := k
				cases = append(cases, explore.Case{ID: fmt.Sprintf("name#%d", k), Nontrivial: k > 0, Run: func() (string, []explore.Violation) { return runC14Name(k) }})
			}
			cases = append(cases, explore.Case{ID: "uniqueness over all inputs", Nontrivial: true, Run: runC14Uniqueness})
			cases = append(cases, explore.Case{ID: "one options value reused across databases", Nontrivial: true, Run: runC14SharedOptions})
			explore.RunCases(c, "C14", cases, i, n)
		},
		Assumptions: []string{
			"environment is the deterministic simulation in /verif/mc/sim; manifests and access-controller parameters are content-addressed blocks fetchable between the three peers",
			"write lists given in different orders are different lists; they are not compared with each other for address inequality",
		},
	})
}
