package scen

import (
	"fmt"
	"strings"

	ipfslog "berty.tech/go-ipfs-log"
	logio "berty.tech/go-ipfs-log/io"
	orbitdb "berty.tech/go-orbit-db"
	"berty.tech/go-orbit-db/accesscontroller"
	"berty.tech/go-orbit-db/address"
	"berty.tech/go-orbit-db/iface"
	"berty.tech/go-orbit-db/stores/eventlogstore"
	"github.com/libp2p/go-libp2p/p2p/host/eventbus"
	"verifmc/explore"
	"verifmc/sim"
)

type c15Case struct {
	Shape string // chainK | repl-J | twoheads | merged | threeheads
	Limit int
	How   string // load | maxhistory-load-1 | maxhistory-load0
}

func (c c15Case) ID() string { return fmt.Sprintf("shape=%s limit=%d how=%s", c.Shape, c.Limit, c.How) }

func c15Shapes() map[string]int {
	m := map[string]int{"repl-1": 1, "repl-3": 3, "twoheads": 4, "twoheads-uneven": 4, "merged": 5, "threeheads": 5}
	for k := 0; k <= 6; k++ {
		m[fmt.Sprintf("chain%d", k)] = k
	}
	return m
}

func c15Cases() []c15Case {
	var out []c15Case
	shapes := c15Shapes()
	var names []string
	for n := range shapes {
		names = append(names, n)
	}
	sortStrings(names)
	for _, s := range names {
		total := shapes[s]
		for n := -2; n <= total+2; n++ {
			for _, how := range []string{"load", "maxhistory-load-1", "maxhistory-load0"} {
				out = append(out, c15Case{Shape: s, Limit: n, How: how})
			}
			// a positive per-call limit together with a maximum-history option that says something else: the call decides
			if n > 0 && strings.HasPrefix(s, "chain") {
				for _, how := range []string{"load-with-maxhistory-1", "load-with-maxhistory0", "load-with-maxhistory1", "load-with-maxhistory-total"} {
					out = append(out, c15Case{Shape: s, Limit: n, How: how})
				}
			}
		}
	}
	return out
}

func runC15Case(c c15Case) (string, []explore.Violation) {
	var vs []explore.Violation
	bad := func(sig, detail string) {
		vs = append(vs, explore.Violation{Signature: sig, Detail: c.ID() + ": " + detail})
	}
	net := sim.NewNet()
	net.PubSub.AutoDeliver = true
	rPeer := net.AddPeer("R")
	R, err := rPeer.Start(nil)
	if err != nil {
		return "harness: " + err.Error(), nil
	}
	A, _ := net.AddPeer("A").Start(nil)
	B, _ := net.AddPeer("B").Start(nil)
	defer func() { _ = A.Close(); _ = B.Close(); _ = sim.Quiesce() }()
	ac := accesscontroller.NewEmptyManifestParams()
	ac.SetAccess("write", []string{R.DB.Identity().ID, A.DB.Identity().ID, B.DB.Identity().ID})
	sr, err := R.DB.Log(bg, "db", &orbitdb.CreateDBOptions{AccessController: ac, Replicate: boolp(false)})
	if err != nil {
		return "harness: " + err.Error(), nil
	}
	addr := sr.Address().String()
	sa, _ := A.DB.Log(bg, addr, &orbitdb.CreateDBOptions{Replicate: boolp(false)})
	sb, _ := B.DB.Log(bg, addr, &orbitdb.CreateDBOptions{Replicate: boolp(false)})
	w := func(s iface.EventLogStore, v string) { _, _ = s.Add(bg, []byte(v)) }
	syncFrom := func(s iface.Store) {
		hs, _ := WireCopy(addr, s.OpLog().Heads().Slice())
		_ = sr.Sync(bg, hs)
		_ = sim.Quiesce()
	}
	single := false
	switch {
	case strings.HasPrefix(c.Shape, "chain"):
		single = true
		var k int
		fmt.Sscanf(c.Shape, "chain%d", &k)
		for i := 1; i <= k; i++ {
			w(sr, fmt.Sprintf("r%d", i))
		}
	case strings.HasPrefix(c.Shape, "repl-"):
		single = true
		var k int
		fmt.Sscanf(c.Shape, "repl-%d", &k)
		for i := 1; i <= k; i++ {
			w(sa, fmt.Sprintf("a%d", i))
		}
		syncFrom(sa)
	case c.Shape == "twoheads":
		w(sr, "r1")
		w(sr, "r2")
		w(sa, "a1")
		w(sa, "a2")
		syncFrom(sa)
	case c.Shape == "twoheads-uneven":
		w(sr, "r1")
		w(sa, "a1")
		w(sa, "a2")
		w(sa, "a3")
		syncFrom(sa)
	case c.Shape == "merged":
		w(sr, "r1")
		w(sr, "r2")
		w(sa, "a1")
		w(sa, "a2")
		syncFrom(sa)
		w(sr, "r3")
	case c.Shape == "threeheads":
		w(sr, "r1")
		w(sa, "a1")
		w(sa, "a2")
		w(sb, "b1")
		w(sb, "b2")
		syncFrom(sa)
		syncFrom(sb)
	}
	_ = sim.Quiesce()
	full := sr.OpLog().Values().Slice()
	fullNames := payloadsOf(full)
	acB := sr.AccessController()
	identity := R.DB.Identity()
	_ = R.Close()
	_ = sim.Quiesce()
	// reopen: a fresh store object over the persisted cache, with or without the maximum-history option
	R2, err := rPeer.Start(nil)
	if err != nil {
		return "harness: " + err.Error(), nil
	}
	defer func() { _ = R2.Close(); _ = sim.Quiesce() }()
	paddr, _ := address.Parse(addr)
	ds, err := R2.Cache.Load(sim.Directory, paddr)
	if err != nil {
		return "harness: " + err.Error(), nil
	}
	opts := &iface.NewStoreOptions{EventBus: eventbus.NewBus(), AccessController: acB, Cache: ds, CacheDestroy: func() error { return nil },
		Replicate: boolp(false), IO: logio.CBOR()}
	arg := c.Limit
	switch c.How {
	case "maxhistory-load-1":
		opts.MaxHistory, arg = intp(c.Limit), -1
	case "maxhistory-load0":
		opts.MaxHistory, arg = intp(c.Limit), 0
	case "load-with-maxhistory-1":
		opts.MaxHistory = intp(-1)
	case "load-with-maxhistory0":
		opts.MaxHistory = intp(0)
	case "load-with-maxhistory1":
		opts.MaxHistory = intp(1)
	case "load-with-maxhistory-total":
		opts.MaxHistory = intp(c15Shapes()[c.Shape])
	}
	st, err := eventlogstore.NewOrbitDBEventLogStore(rPeer.API(), identity, paddr, opts)
	if err != nil {
		return "harness: " + err.Error(), nil
	}
	defer st.Close()
	call := async("Load", func() error { return st.Load(bg, arg) })
	if err := sim.Quiesce(); err != nil {
		bad("load-never-settles", "system keeps running")
		return "hang", vs
	}
	if !call.finished() {
		bad("load-hangs", "Load has not returned at quiescence")
		return "hang", vs
	}
	if call.err != nil {
		bad("load-error", call.err.Error())
		return "error", vs
	}
	ops, err := st.(iface.EventLogStore).List(bg, &iface.StreamOptions{Amount: intp(-1)})
	if err != nil {
		bad("list-error", err.Error())
		return "error", vs
	}
	var got []string
	for _, o := range ops {
		got = append(got, string(o.GetValue()))
	}
	total := len(fullNames)
	want := total
	if c.Limit > 0 && c.Limit < total {
		want = c.Limit
	}
	if len(got) != want {
		bad(fmt.Sprintf("limit-visible-count-wrong:%s", limitClass(c.Limit, total)), fmt.Sprintf("persisted %v; visible %v; expected %d entries", fullNames, got, want))
		return fmt.Sprintf("count %d/%d", len(got), want), vs
	}
	// in log order: a subsequence of the full listing
	if !isSubsequence(got, fullNames) {
		bad("limit-listing-out-of-order", fmt.Sprintf("persisted %v; visible %v", fullNames, got))
	}
	if total > 0 && want > 0 && got[len(got)-1] != fullNames[total-1] {
		bad("limit-misses-newest", fmt.Sprintf("persisted %v; visible %v", fullNames, got))
	}
	if single && want > 0 && strings.Join(got, ",") != strings.Join(fullNames[total-want:], ",") {
		bad("limit-not-most-recent-of-single-writer-log", fmt.Sprintf("persisted %v; visible %v", fullNames, got))
	}
	return fmt.Sprintf("ok %s", limitClass(c.Limit, total)), vs
}

func limitClass(n, total int) string {
	switch {
	case n < 0:
		return "negative"
	case n == 0:
		return "zero"
	case n < total:
		return "below-length"
	case n == total:
		return "equal-length"
	}
	return "beyond-length"
}

func payloadsOf(es []ipfslog.Entry) []string {
	var out []string
	for _, e := range es {
		op, err := parseOp(e)
		if err == nil {
			out = append(out, string(op.GetValue()))
		}
	}
	return out
}

func init() {
	explore.Register(&explore.CheckDef{
		ID: "C15", Level: "exploration",
		Rule:   "cross product on fresh worlds, each case in a worker process with crash attribution: persisted log shape {single-writer chains of 0..6 local entries, replicated-only chains, two heads (even and uneven), merged, three heads} x limit n in {-2 .. length+2} x how the limit is given {Load(n), MaxHistory=n with Load(-1), MaxHistory=n with Load(0); for positive n on the chains also Load(n) with MaxHistory in {-1, 0, 1, total}}; the database is reopened over the persisted cache with a fresh store object and loaded. Oracle: no panic, error or hang; exactly min(n,total) entries listed for n>0 (everything for n<=0), a subsequence of the full listing that contains the newest entry, and exactly the last n for single-writer logs. Non-trivial = limits different from -1.",
		Units:  func(tier string) []explore.Unit { return explore.ChunkUnits("c15", 16) },
		Budget: func(tier string) float64 { return 400 },
		RunUnit: func(c *explore.Ctx) {
			_, i, n := explore.ParseChunk(c.Spec.Unit.Arg)
			var cases []explore.Case
			for _, cs := range c15Cases() {
				cs := cs
				cases = append(cases, explore.Case{ID: cs.ID(), Nontrivial: cs.Limit != -1, Run: func() (string, []explore.Violation) { return runC15Case(cs) }})
			}
			explore.RunCases(c, "C15", cases, i, n)
		},
		Assumptions: []string{
			"environment is the deterministic simulation in /verif/mc/sim; the maximum-history option is given through the store constructor (the instance API does not expose it)",
		},
	})
}
