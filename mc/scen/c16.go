package scen

import (
	"context"
	"encoding/json"
	"fmt"
	"strings"
	"sync"

	ipfslog "berty.tech/go-ipfs-log"
	"berty.tech/go-ipfs-log/entry"
	"berty.tech/go-orbit-db/events"
	"berty.tech/go-orbit-db/iface"
	"berty.tech/go-orbit-db/stores"
	datastore "github.com/ipfs/go-datastore"
	"github.com/libp2p/go-libp2p/core/event"
	"github.com/libp2p/go-libp2p/p2p/host/eventbus"
	"verifmc/explore"
	"verifmc/sim"
)

// viewMatchesLog reports "" when replica i's view equals the replay of its current log order.
func (w *Writers) viewMatchesLog(i int) string {
	s := w.Stores[i]
	vals := s.OpLog().Values().Slice()
	switch w.Kind {
	case "keyvalue":
		ref, _ := RefKV(vals)
		if got := s.(iface.KeyValueStore).All(); !sameKV(ref, got) {
			return fmt.Sprintf("All()=%s replay=%s", kvString(got), kvString(ref))
		}
	case "docstore":
		ref, _ := RefDocs(vals)
		ds, _ := s.(iface.DocumentStore).Query(bg, func(interface{}) (bool, error) { return true, nil })
		if g, want := docsMultiset(ds), refMultiset(ref, func(string, []byte) bool { return true }); g != want {
			return fmt.Sprintf("docs=%s replay=%s", g, want)
		}
	case "eventlog":
		ops, _ := s.(iface.EventLogStore).List(bg, &iface.StreamOptions{Amount: intp(-1)})
		if strings.Join(opHashes(ops), ",") != strings.Join(hashesOf(vals), ",") {
			return "listing differs from log order"
		}
	}
	return ""
}

// cachedHeadsCover: every given entry is reachable (inside the replica's log) from the heads persisted
// in the cache.
func (w *Writers) cachedHeadsCover(i int, es []ipfslog.Entry) string {
	s := w.Stores[i]
	var heads []*entry.Entry
	for _, k := range []string{"_localHeads", "_remoteHeads"} {
		raw, err := s.Cache().Get(bg, datastore.NewKey(k))
		if err != nil {
			continue
		}
		var hs []*entry.Entry
		if json.Unmarshal(raw, &hs) == nil {
			heads = append(heads, hs...)
		}
	}
	log := s.OpLog()
	reach := map[string]bool{}
	var stack []string
	for _, h := range heads {
		stack = append(stack, h.GetHash().String())
	}
	for len(stack) > 0 {
		c := stack[0]
		stack = stack[1:]
		if reach[c] {
			continue
		}
		reach[c] = true
		for _, e := range log.GetEntries().Slice() {
			if e.GetHash().String() == c {
				for _, n := range e.GetNext() {
					stack = append(stack, n.String())
				}
			}
		}
	}
	for _, e := range es {
		if !reach[e.GetHash().String()] {
			return fmt.Sprintf("entry %s is not covered by the cached heads", w.EID(e))
		}
	}
	return ""
}

type emitRec struct {
	kind   string
	hashes string
}

// eventMonitor implements C16 part A.
type eventMonitor struct {
	mu         sync.Mutex
	emitted    map[int][]emitRec     // per replica, in emission order (EventWrite / EventReplicated only)
	received   map[int][]emitRec     // what the stalled bus subscriber has read
	kept       map[int][]interface{} // the event values it read, looked at again later: an event does not change once delivered
	subs       map[int]event.Subscription
	legacy     map[int]<-chan events.Event // the store's deprecated channel API (Subscribe)
	legacyRx   map[int][]emitRec
	cancels    map[int]context.CancelFunc
	legacyBase map[int]int // number of emissions before the legacy subscription was made
	written    map[string]bool
	actWrite   map[int]int
	actRepl    map[int][]string
}

func recOf(evt interface{}) (emitRec, bool) {
	switch e := evt.(type) {
	case stores.EventWrite:
		return emitRec{"write", e.Entry.GetHash().String()}, true
	case stores.EventReplicated:
		return emitRec{"replicated", strings.Join(hashesOf(e.Entries), ",")}, true
	}
	return emitRec{}, false
}

func installEventMonitor(w *Writers, prop string) {
	m := &eventMonitor{emitted: map[int][]emitRec{}, received: map[int][]emitRec{}, kept: map[int][]interface{}{}, subs: map[int]event.Subscription{},
		legacy: map[int]<-chan events.Event{}, legacyRx: map[int][]emitRec{}, cancels: map[int]context.CancelFunc{}, legacyBase: map[int]int{},
		written: map[string]bool{}, actWrite: map[int]int{}, actRepl: map[int][]string{}}
	subscribe := func(w *Writers, i int) {
		sub, err := w.Inst[i].Bus.Subscribe([]interface{}{new(stores.EventWrite), new(stores.EventReplicated)}, eventbus.BufSize(1))
		if err != nil {
			w.Report(explore.Violation{Property: prop, Signature: "harness-subscribe-failed", Detail: err.Error()})
			return
		}
		m.mu.Lock()
		m.subs[i] = sub
		m.mu.Unlock()
	}
	// legacy channel subscribers are attached to the store object (after it has been opened)
	subscribeLegacy := func(w *Writers, i int) {
		if i >= len(w.Stores) || w.Stores[i] == nil {
			return
		}
		m.mu.Lock()
		if c := m.cancels[i]; c != nil {
			c()
		}
		ctx, cancel := context.WithCancel(context.Background())
		m.cancels[i] = cancel
		m.legacy[i] = w.Stores[i].Subscribe(ctx)
		m.legacyRx[i] = nil
		m.legacyBase[i] = len(m.emitted[i])
		m.mu.Unlock()
	}
	w.Scratch["subscribeLegacy"] = subscribeLegacy
	w.OnClose = append(w.OnClose, func(w *Writers) {
		// the harness cancels the legacy subscriptions it made itself
		m.mu.Lock()
		for _, c := range m.cancels {
			c()
		}
		subs := m.subs
		m.subs = map[int]event.Subscription{}
		m.mu.Unlock()
		for _, s := range subs {
			_ = s.Close()
		}
	})
	w.OnRestart = append(w.OnRestart, func(w *Writers, i int) {
		m.mu.Lock()
		m.emitted[i], m.received[i], m.kept[i] = nil, nil, nil
		m.mu.Unlock()
		subscribe(w, i)
	})
	w.Scratch["subscribe"] = subscribe
	w.EmitHooks = append(w.EmitHooks, func(w *Writers, i int, evt interface{}) {
		rec, ok := recOf(evt)
		if !ok {
			return
		}
		m.mu.Lock()
		m.emitted[i] = append(m.emitted[i], rec)
		m.mu.Unlock()
		var es []ipfslog.Entry
		switch e := evt.(type) {
		case stores.EventWrite:
			es = []ipfslog.Entry{e.Entry}
			m.mu.Lock()
			if m.written[rec.hashes] {
				w.Report(explore.Violation{Property: prop, Signature: "write-event-duplicated", Detail: w.EID(e.Entry)})
			}
			m.written[rec.hashes] = true
			m.actWrite[i]++
			m.mu.Unlock()
		case stores.EventReplicated:
			es = e.Entries
			m.mu.Lock()
			m.actRepl[i] = append(m.actRepl[i], hashesOf(es)...)
			m.mu.Unlock()
		}
		if i >= len(w.Stores) || w.Stores[i] == nil {
			return
		}
		log := w.Stores[i].OpLog()
		for _, e := range es {
			if _, ok := log.Get(e.GetHash()); !ok {
				w.Report(explore.Violation{Property: prop, Signature: "event-ahead-of-log:" + rec.kind,
					Detail: fmt.Sprintf("replica %d emits %s for %s which is not in its log", i, rec.kind, w.EID(e))})
			}
		}
		if msg := w.viewMatchesLog(i); msg != "" {
			w.Report(explore.Violation{Property: prop, Signature: "event-ahead-of-view:" + rec.kind,
				Detail: fmt.Sprintf("replica %d at emission of %s: %s", i, rec.kind, msg)})
		}
		if msg := w.cachedHeadsCover(i, es); msg != "" {
			w.Report(explore.Violation{Property: prop, Signature: "event-ahead-of-cached-heads:" + rec.kind,
				Detail: fmt.Sprintf("replica %d at emission of %s: %s", i, rec.kind, msg)})
		}
	})
	// pump: the harness's slow subscribers read what has been delivered so far
	pump := func(w *Writers) bool {
		progress := false
		m.mu.Lock()
		subs := map[int]event.Subscription{}
		for i, s := range m.subs {
			subs[i] = s
		}
		chans := map[int]<-chan events.Event{}
		for i, c := range m.legacy {
			chans[i] = c
		}
		m.mu.Unlock()
		for i, sub := range subs {
		drainBus:
			for {
				select {
				case evt, ok := <-sub.Out():
					if !ok {
						break drainBus
					}
					if rec, ok := recOf(evt); ok {
						m.mu.Lock()
						m.received[i] = append(m.received[i], rec)
						m.kept[i] = append(m.kept[i], evt)
						m.mu.Unlock()
					}
					progress = true
				default:
					break drainBus
				}
			}
		}
		for i, c := range chans {
		drainLegacy:
			for {
				select {
				case evt, ok := <-c:
					if !ok {
						break drainLegacy
					}
					if rec, ok := recOf(evt); ok {
						m.mu.Lock()
						m.legacyRx[i] = append(m.legacyRx[i], rec)
						m.mu.Unlock()
					}
					progress = true
				default:
					break drainLegacy
				}
			}
		}
		return progress
	}
	w.Pumps = append(w.Pumps, pump)
	lens := map[int]map[string]bool{}
	w.Before = append(w.Before, func(w *Writers, a string) {
		m.mu.Lock()
		m.actWrite, m.actRepl = map[int]int{}, map[int][]string{}
		m.mu.Unlock()
		for i, s := range w.Stores {
			lens[i] = map[string]bool{}
			for _, e := range s.OpLog().GetEntries().Slice() {
				lens[i][e.GetHash().String()] = true
			}
		}
	})
	w.After = append(w.After, func(w *Writers, a string) {
		// the stalled subscriber reads now; emitters blocked on its 1-slot buffer continue
		for round := 0; round < 64; round++ {
			progress := false
			m.mu.Lock()
			subs := map[int]event.Subscription{}
			for i, s := range m.subs {
				subs[i] = s
			}
			m.mu.Unlock()
			for i, sub := range subs {
				for {
					select {
					case evt, ok := <-sub.Out():
						if !ok {
							goto next
						}
						if rec, ok := recOf(evt); ok {
							m.mu.Lock()
							m.received[i] = append(m.received[i], rec)
							m.kept[i] = append(m.kept[i], evt)
							m.mu.Unlock()
						}
						progress = true
						continue
					default:
					}
					break
				}
			next:
			}
			if !progress {
				break
			}
			_ = sim.Quiesce()
		}
		// the legacy channel subscriber reads everything that has been delivered to it so far
		if a[0] == 'L' || a[0] == 'S' || a[0] == 'P' {
			for i := range w.Stores {
				if a[1] == byte('0'+i) {
					subscribeLegacy(w, i) // new store object after a restart
				}
			}
		}
		for round := 0; round < 64; round++ {
			progress := false
			m.mu.Lock()
			chans := map[int]<-chan events.Event{}
			for i, c := range m.legacy {
				chans[i] = c
			}
			m.mu.Unlock()
			for i, c := range chans {
				for {
					select {
					case evt, ok := <-c:
						if !ok {
							goto nextLegacy
						}
						if rec, ok := recOf(evt); ok {
							m.mu.Lock()
							m.legacyRx[i] = append(m.legacyRx[i], rec)
							m.mu.Unlock()
						}
						progress = true
						continue
					default:
					}
					break
				}
			nextLegacy:
			}
			if !progress {
				break
			}
			_ = sim.Quiesce()
		}
		m.mu.Lock()
		defer m.mu.Unlock()
		for i := range w.Stores {
			if _, has := m.legacy[i]; has && a[0] != 'L' && a[0] != 'S' && a[0] != 'P' {
				// events emitted since the legacy subscription was made
				em := m.emitted[i]
				if n := len(em) - len(m.legacyRx[i]); n >= 0 && m.legacyBase[i] <= len(em) {
					if fmt.Sprint(em[m.legacyBase[i]:]) != fmt.Sprint(m.legacyRx[i]) {
						w.pending = append(w.pending, explore.Violation{Property: prop, Signature: "legacy-channel-subscriber-sequence-differs",
							Detail: fmt.Sprintf("replica %d: emitted since subscription %v, legacy channel received %v", i, em[m.legacyBase[i]:], m.legacyRx[i])})
					}
				}
			}
			for k, evt := range m.kept[i] {
				if now, _ := recOf(evt); k < len(m.received[i]) && now != m.received[i][k] {
					w.pending = append(w.pending, explore.Violation{Property: prop, Signature: "event-content-changed-after-delivery",
						Detail: fmt.Sprintf("replica %d: event %d was %v when the subscriber read it and is %v now (its payload shares memory with something written later)", i, k, m.received[i][k], now)})
				}
			}
			if fmt.Sprint(m.emitted[i]) != fmt.Sprint(m.received[i]) {
				w.pending = append(w.pending, explore.Violation{Property: prop, Signature: "bus-subscriber-sequence-differs",
					Detail: fmt.Sprintf("replica %d: emitted %d events, slow subscriber received %d: %v vs %v", i, len(m.emitted[i]), len(m.received[i]), m.emitted[i], m.received[i])})
			}
		}
		if a[0] == 'L' || a[0] == 'S' || a[0] == 'P' {
			return
		}
		for i, s := range w.Stores {
			var fresh []string
			for _, e := range s.OpLog().GetEntries().Slice() {
				if !lens[i][e.GetHash().String()] {
					fresh = append(fresh, e.GetHash().String())
				}
			}
			isWriter := a[0] == 'w' && int(a[1]-'0') == i
			if isWriter {
				if len(fresh) == 1 && m.actWrite[i] != 1 {
					w.pending = append(w.pending, explore.Violation{Property: prop, Signature: "write-event-count",
						Detail: fmt.Sprintf("replica %d: one entry written by %s but %d write events", i, a, m.actWrite[i])})
				}
				continue
			}
			if m.actWrite[i] != 0 {
				w.pending = append(w.pending, explore.Violation{Property: prop, Signature: "write-event-without-write",
					Detail: fmt.Sprintf("replica %d emitted %d write events during %s", i, m.actWrite[i], a)})
			}
			got := map[string]bool{}
			for _, h := range m.actRepl[i] {
				got[h] = true
			}
			for _, h := range fresh {
				if !got[h] {
					w.pending = append(w.pending, explore.Violation{Property: prop, Signature: "merged-entries-without-replicated-event",
						Detail: fmt.Sprintf("replica %d merged %d entries during %s but no replicated event carried one of them", i, len(fresh), a)})
					break
				}
			}
		}
	})
}

func init() {
	explore.Register(&explore.CheckDef{
		ID: "C16", Level: "model_checking",
		Rule: "Part A: explicit-state DFS over write/merge/announce/restart histories (three store types); a monitor running synchronously inside every EventWrite/EventReplicated emission requires the announced entries to be in the log, the view to equal the replay of the log, and the cached heads to cover them; exactly one write event per write, a replicated event for every merged batch; a bus subscriber with a 1-slot buffer and a subscriber on the store's legacy channel API, both reading only between actions, must receive exactly the emission sequence, and an event's content may not change after it was delivered; concurrent local writers (the C17 world: two writers stepped through the write path's schedule points, all interleavings for the event log, <= 3 deviations for the other store types in quick): once all calls have returned, every returned entry is carried by exactly one write event and no write event carries anything else. Part B: every interleaving (deviation-bounded DFS, all executions run to completion) of producer, the legacy emitter's reader and drain goroutines at their three schedule points, and the consumer, after the 16-slot delivery channel has been filled; the subscriber must receive 1..n exactly. Non-trivial = executions with at least one deviation from the canonical schedule / states with merged writers.",
		Units: func(tier string) []explore.Unit {
			var u []explore.Unit
			d := 4
			kB, rB, bound := 3, 2, 2
			if tier == "thorough" {
				d = 5
				kB, rB, bound = 4, 3, 3
			}
			for _, k := range []struct{ kind, alpha string }{{"eventlog", "one"}, {"keyvalue", "twokeys"}, {"docstore", "twokeys"}} {
				dd := d
				if k.kind == "eventlog" {
					dd++
				}
				for _, x := range c01Units(C01Arg{DFSArg: DFSArg{Kind: k.kind, Writers: 2, Depth: dd, Alpha: k.alpha, Dup: true}, Observer: true, Routes: []string{"sync", "topic"}, Reload: true}, 12) {
					x.Arg = "A" + x.Arg
					u = append(u, x)
				}
			}
			// entries merged BELOW the heads: the observer reloads only its newest entry, then older entries are announced
			for _, x := range c01Units(C01Arg{DFSArg: DFSArg{Kind: "eventlog", Writers: 1, Depth: 5, Alpha: "one"}, Observer: true, Routes: []string{"sync"}, Antichains: true, Partial: true}, 8) {
				x.Arg = "A" + x.Arg
				u = append(u, x)
			}
			// part A over batches that contain rejected entries
			for _, k := range []string{"nonwriter", "badancestor"} {
				for _, v := range []string{"one", "two"} {
					for _, l := range []string{"first", "last", "split-rv"} {
						for _, r := range []string{"sync", "topic"} {
							a := C10Arg{Kind: k, Valid: v, Layout: l, Route: r, Bound: 1}
							b, _ := json.Marshal(a)
							u = append(u, explore.Unit{Name: "events-with-" + a.Name(), Arg: "C" + string(b)})
						}
					}
				}
			}
			// concurrent local writers on one store (the C17 world): one write event per call, carrying that call's entry
			for _, k := range []string{"eventlog", "keyvalue", "docstore"} {
				cb := 3
				if tier == "thorough" || k == "eventlog" {
					cb = -1
				}
				for _, x := range c17Units(C17Arg{Kind: k, N: 2, Per: 1, Bound: cb}, 4) {
					x.Name, x.Arg = "events-of-"+x.Name, "W"+x.Arg
					u = append(u, x)
				}
			}
			if tier == "thorough" {
				for _, x := range c17Units(C17Arg{N: 3, Per: 1, Bound: 3}, 16) {
					x.Name, x.Arg = "events-of-"+x.Name, "W"+x.Arg
					u = append(u, x)
				}
			}
			u = append(u, c16bUnits(C16BArg{K: kB, Reads: rB, Bound: bound}, 32)...)
			u = append(u, c16bUnits(C16BArg{K: 2, Reads: 1, Bound: bound + 1}, 16)...)
			u = append(u, c16bUnits(C16BArg{K: 1, Reads: 1, Bound: -1}, 8)...)
			u = append(u, c16bUnits(C16BArg{K: 2, Reads: 1, Bound: bound, Global: true}, 8)...)
			return u
		},
		Budget: func(tier string) float64 {
			if tier == "thorough" {
				return 1500
			}
			return 400
		},
		RunUnit: func(c *explore.Ctx) {
			arg := c.Spec.Unit.Arg
			if strings.HasPrefix(arg, "B") {
				runC16B(c, arg[1:])
				return
			}
			if strings.HasPrefix(arg, "W") {
				var a C17Arg
				if err := json.Unmarshal([]byte(arg[1:]), &a); err != nil {
					c.Stats.HarnessErrs = append(c.Stats.HarnessErrs, err.Error())
					return
				}
				d := &explore.ScheduleDFS{
					Settle:   settle,
					Scenario: "events-of-" + a.Name(),
					New: func() (explore.World, error) {
						w, err := NewConcWritersMerge(a.Kind, a.N, a.Per, false, 0)
						if err == nil {
							err = w.WatchWriteEvents()
						}
						return w, err
					},
					Bound: a.Bound, Horizon: 400, Stats: c.Stats, Journal: c.JournalHist, Expired: c.Expired,
					Shards: a.Shards, Shard: a.Shard,
					Terminal: func(w explore.World, hist []string) []explore.Violation { return w.(*ConcWriters).WriteEventViolations() },
				}
				d.Run()
				for i := range c.Stats.Violations {
					c.Stats.Violations[i].Property = "C16"
				}
				return
			}
			if strings.HasPrefix(arg, "C") {
				var a C10Arg
				if err := json.Unmarshal([]byte(arg[1:]), &a); err != nil {
					c.Stats.HarnessErrs = append(c.Stats.HarnessErrs, err.Error())
					return
				}
				d := &explore.ScheduleDFS{
					Settle:   settle,
					Scenario: "events-with-" + a.Name(),
					New: func() (explore.World, error) {
						w, err := NewC10World(a)
						if err == nil {
							w.MonitorEvents()
							// the victim's writes of its cached head lists are gates too: whatever the store does after
							// starting such a write (emitting, say) happens while the write is still parked
							w.Net.Gates.Enable(func(kind, peer, key, caller string) bool {
								return peer == "V" && (kind == "dag.get" || (kind == "cache.put" && strings.HasSuffix(key, "Heads")))
							})
						}
						return w, err
					},
					Bound: a.Bound, Horizon: 200, Stats: c.Stats, Journal: c.JournalHist, Expired: c.Expired,
				}
				d.Run()
				for i := range c.Stats.Violations {
					c.Stats.Violations[i].Property = "C16"
				}
				return
			}
			c.Spec.Unit.Arg = arg[1:]
			runC01Unit(c, "C16", func(w *Writers, a C01Arg) {
				installEventMonitor(w, "C16")
				sub := w.Scratch["subscribe"].(func(*Writers, int))
				subL := w.Scratch["subscribeLegacy"].(func(*Writers, int))
				for i := range w.Inst {
					sub(w, i)
					subL(w, i)
				}
				_ = sim.Quiesce()
			})
		},
		Assumptions: []string{
			"environment is the deterministic simulation in /verif/mc/sim; one database per instance",
			"the legacy emitter's interleaving points are the three verifhook points around its single mutex (lock-protected blocks are single transitions)",
		},
	})
}
