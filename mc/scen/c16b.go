package scen

import (
	"context"
	"encoding/json"
	"fmt"
	"strings"

	"berty.tech/go-orbit-db/events"
	"verifmc/explore"
	"verifmc/sim"
)

// EmitterWorld drives the legacy EventEmitter: one producer, one legacy subscriber whose delivery channel
// has been filled, and the emitter's two buffering goroutines stepped at their schedule points.
type EmitterWorld struct {
	em       *events.EventEmitter
	gates    *sim.Gates
	ch       <-chan events.Event
	cancel   context.CancelFunc
	prodCmd  chan int
	prodBusy chan struct{}
	emitted  int // events handed to Emit so far
	total    int // events to emit in the explored phase (on top of the fill)
	reads    int // reads the consumer may still do during the explored phase
	received []int
	fill     int
	pending  []explore.Violation
	global   bool
}

func NewEmitterWorld(k, reads int, global bool) (*EmitterWorld, error) {
	w := &EmitterWorld{em: &events.EventEmitter{}, gates: sim.NewGates(), total: k, reads: reads, fill: 16, global: global}
	sim.UsePointGates(w.gates, func(name string, obj interface{}) string {
		if obj == nil {
			return ""
		}
		return fmt.Sprint(obj)
	})
	ctx, cancel := context.WithCancel(context.Background())
	w.cancel = cancel
	if global {
		w.ch = w.em.GlobalChannel(ctx)
	} else {
		w.ch = w.em.Subscribe(ctx)
	}
	w.prodCmd = make(chan int)
	go func() {
		for n := range w.prodCmd {
			w.em.Emit(ctx, n)
		}
	}()
	if err := sim.Quiesce(); err != nil {
		return nil, err
	}
	// phase 1: fill the 16-slot delivery channel, ungated (no choice matters: nothing else is pending)
	for i := 0; i < w.fill; i++ {
		w.emitted++
		w.prodCmd <- w.emitted // the producer emits strictly one after the other
	}
	if err := sim.Quiesce(); err != nil {
		return nil, err
	}
	if len(w.ch) != w.fill {
		return nil, fmt.Errorf("emitter world: expected %d buffered events, have %d", w.fill, len(w.ch))
	}
	// phase 2: every schedule point of the emitter now parks
	w.gates.Enable(func(kind, peer, key, caller string) bool { return kind == "point" && strings.HasPrefix(peer, "emit.") })
	return w, nil
}

func (w *EmitterWorld) Enabled() []string {
	var out []string
	for _, l := range w.gates.Parked() {
		out = append(out, "P:"+l)
	}
	if w.emitted < w.fill+w.total && w.producerReady() {
		out = append(out, "E")
	}
	// reads: limited during the explored phase, unlimited once everything has been emitted (final drain)
	if len(w.ch) > 0 && (w.reads > 0 || w.emitted == w.fill+w.total) {
		out = append(out, "R")
	}
	return out
}

// producerReady: the producer goroutine is back in its receive loop (its last Emit returned).
func (w *EmitterWorld) producerReady() bool {
	for _, g := range sim.Goroutines() {
		if strings.Contains(g.Stack, "scen.NewEmitterWorld.func") && strings.Contains(g.Stack, "EventEmitter).Emit") {
			return false
		}
	}
	return true
}

func (w *EmitterWorld) Do(a string) error {
	switch {
	case a == "E":
		w.emitted++
		w.prodCmd <- w.emitted
	case a == "R":
		select {
		case e := <-w.ch:
			n, _ := e.(int)
			w.received = append(w.received, n)
			if w.emitted < w.fill+w.total {
				w.reads--
			}
			if n != len(w.received) {
				w.pending = append(w.pending, explore.Violation{Signature: "legacy-subscriber-order-or-loss",
					Detail: fmt.Sprintf("subscriber received %v: position %d holds event %d", w.received, len(w.received), n)})
			}
		default:
			return fmt.Errorf("read with empty channel")
		}
	case strings.HasPrefix(a, "P:"):
		if err := w.gates.Release(a[2:], sim.AnswerOK); err != nil {
			return err
		}
	default:
		return fmt.Errorf("unknown action %q", a)
	}
	return sim.Quiesce()
}

func (w *EmitterWorld) Key() string { return "" }

func (w *EmitterWorld) Check(hist []string) []explore.Violation {
	out := w.pending
	w.pending = nil
	return out
}

// Final: everything emitted must have been received exactly once, in order.
func (w *EmitterWorld) Final() []explore.Violation {
	if len(w.received) != w.emitted {
		return []explore.Violation{{Signature: "legacy-subscriber-lost-events",
			Detail: fmt.Sprintf("emitted 1..%d, subscriber received %v and nothing more is deliverable", w.emitted, w.received)}}
	}
	return nil
}

func (w *EmitterWorld) Close() {
	w.gates.Enable(nil)
	w.cancel()
	for i := 0; i < 20; i++ {
		if w.gates.ReleaseAll() == 0 {
			break
		}
		_ = sim.Quiesce()
	}
	close(w.prodCmd)
	_ = sim.Quiesce()
}

type C16BArg struct {
	K      int  `json:"k"`
	Reads  int  `json:"reads"`
	Bound  int  `json:"bound"`
	Global bool `json:"global"`
	Shards int  `json:"shards"`
	Shard  int  `json:"shard"`
}

func (a C16BArg) Name() string {
	return fmt.Sprintf("emitter/k%d/r%d/dev%d/global=%v/shard%d.%d", a.K, a.Reads, a.Bound, a.Global, a.Shard, a.Shards)
}

func c16bUnits(base C16BArg, shards int) []explore.Unit {
	var out []explore.Unit
	for s := 0; s < shards; s++ {
		a := base
		a.Shards, a.Shard = shards, s
		b, _ := json.Marshal(a)
		out = append(out, explore.Unit{Name: a.Name(), Arg: "B" + string(b)})
	}
	return out
}

func runC16B(c *explore.Ctx, arg string) {
	var a C16BArg
	if err := json.Unmarshal([]byte(arg), &a); err != nil {
		c.Stats.HarnessErrs = append(c.Stats.HarnessErrs, err.Error())
		return
	}
	d := &explore.ScheduleDFS{
		Settle:   settle,
		Scenario: a.Name(),
		New:      func() (explore.World, error) { return NewEmitterWorld(a.K, a.Reads, a.Global) },
		Bound:    a.Bound, Horizon: 400, Stats: c.Stats, Journal: c.JournalHist, Expired: c.Expired,
		Shards: a.Shards, Shard: a.Shard,
		Terminal: func(w explore.World, hist []string) []explore.Violation { return w.(*EmitterWorld).Final() },
	}
	d.Run()
	for i := range c.Stats.Violations {
		c.Stats.Violations[i].Property = "C16"
	}
}
