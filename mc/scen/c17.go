package scen

import (
	"encoding/json"
	"fmt"
	"sort"
	"strings"
	"sync"

	ipfslog "berty.tech/go-ipfs-log"
	orbitdb "berty.tech/go-orbit-db"
	"berty.tech/go-orbit-db/accesscontroller"
	"berty.tech/go-orbit-db/iface"
	"berty.tech/go-orbit-db/stores"
	"berty.tech/go-orbit-db/stores/operation"
	"github.com/libp2p/go-libp2p/core/event"
	"github.com/libp2p/go-libp2p/p2p/host/eventbus"
	"verifmc/explore"
	"verifmc/sim"
)

// pointDetail renders hook objects into schedule-independent label details.
func pointDetail(name string, obj interface{}) string {
	switch o := obj.(type) {
	case nil:
		// lock points: the scenario's name for the calling goroutine, or the function a goroutine of the code
		// under test was started in
		if t := sim.GoroutineTag(); t != "" {
			return t
		}
		return "~" + sim.GoroutineRoot()
	case operation.Operation:
		return string(o.GetValue())
	case ipfslog.Entry:
		if op, err := operation.ParseOperation(o); err == nil {
			return string(op.GetValue())
		}
		return o.GetHash().String()
	case string:
		return "" // store addresses: one database per world in these scenarios
	case interface {
		GetHash() interface{ String() string }
	}:
		return o.GetHash().String()
	}
	return fmt.Sprint(obj)
}

// ConcWriters: N goroutines write concurrently to one event log store; the explorer steps each writer
// through the points begin / afterAppend / afterPersist / afterIndex.
type ConcWriters struct {
	evSub event.Subscription // C16: write events of the store under test (WatchWriteEvents)
	k0       int    // effects issued before the writers started
	identity string
	last    string // thread that made the last step
	status  bool   // sample (progress, max) after every step; the status code's locks are points too
	lastP   int
	lastM   int
	pending []explore.Violation
	faultsInit int
	faults  int    // head-list writes the explorer may still let fail (storage faults; the writes are gates then)
	pre     int    // > 0: entries of a second remote writer merged (and reported replicated) before the threads start
	remote2 *sim.Instance
	merge   int    // > 0: one more thread merges this many entries of a remote writer while the writers write
	remote  *sim.Instance
	locks   bool   // also park writers before every Lock/RLock of the store and index code (vsync shim)
	kind    string // eventlog | keyvalue-distinct | keyvalue-same | docstore-same
	net    *sim.Net
	peer   *sim.Peer
	inst   *sim.Instance
	store  iface.Store
	addr   string
	n, per int
	mu     sync.Mutex
	acked  map[string]string // payload -> entry hash returned by a successful call
	errs   map[string]error
	done   int
}

func (w *ConcWriters) storeType() string {
	switch {
	case strings.HasPrefix(w.kind, "keyvalue"):
		return "keyvalue"
	case strings.HasPrefix(w.kind, "docstore"):
		return "docstore"
	}
	return "eventlog"
}

// write performs writer k's j-th write and returns the hash of the entry it was acknowledged with.
func (w *ConcWriters) write(k, j int, payload string) (string, error) {
	key := "k"
	if strings.HasSuffix(w.kind, "-distinct") {
		key = fmt.Sprintf("k%d", k)
	}
	switch s := w.store.(type) {
	case iface.EventLogStore:
		op, err := s.Add(bg, []byte(payload))
		if err != nil {
			return "", err
		}
		return op.GetEntry().GetHash().String(), nil
	case iface.KeyValueStore:
		op, err := s.Put(bg, key, []byte(payload))
		if err != nil {
			return "", err
		}
		return op.GetEntry().GetHash().String(), nil
	case iface.DocumentStore:
		op, err := s.Put(bg, map[string]interface{}{"_id": key, "v": payload})
		if err != nil {
			return "", err
		}
		return op.GetEntry().GetHash().String(), nil
	}
	return "", fmt.Errorf("unknown store")
}

func NewConcWriters(n, per int) (*ConcWriters, error) { return NewConcWritersKind("eventlog", n, per) }

func NewConcWritersKind(kind string, n, per int) (*ConcWriters, error) {
	return NewConcWritersLocks(kind, n, per, false)
}

// NewConcWritersLocks: with locks, every Lock/RLock taken by the store and index code (built with the vsync
// shim) is a schedule point as well.
func NewConcWritersLocks(kind string, n, per int, locks bool) (*ConcWriters, error) {
	return NewConcWritersMerge(kind, n, per, locks, 0)
}

// NewConcWritersMerge: with merge > 0 another thread hands the store the head of a remote writer's chain of
// that many entries (Sync), so that a replication merge runs concurrently with the local writes.
func NewConcWritersMerge(kind string, n, per int, locks bool, merge int) (*ConcWriters, error) {
	return NewConcWritersStatus(kind, n, per, locks, merge, false)
}

// NewConcWritersStatus: with status, the locks of the replication-status code are schedule points as well and
// (progress, max) is sampled after every step (C19).
func NewConcWritersStatus(kind string, n, per int, locks bool, merge int, status bool) (*ConcWriters, error) {
	return NewConcWritersPre(kind, n, per, locks, merge, status, 0)
}

// NewConcWritersPre: with pre > 0 a second remote writer's chain of that many entries is merged before the
// threads start (acknowledged as replicated), and the merging thread waits at a harness point "merge.begin"
// so that the explorer decides when the concurrent merge starts.
func NewConcWritersPre(kind string, n, per int, locks bool, merge int, status bool, pre int) (*ConcWriters, error) {
	sim.TagGoroutine("driver") // the explorer's own reads of the store never park
	w := &ConcWriters{pre: pre, status: status, merge: merge, locks: locks, kind: kind, net: sim.NewNet(), n: n, per: per, acked: map[string]string{}, errs: map[string]error{}}
	w.peer = w.net.AddPeer("W")
	inst, err := w.peer.Start(nil)
	if err != nil {
		return nil, err
	}
	w.inst = inst
	copts := &orbitdb.CreateDBOptions{Replicate: boolp(false)}
	if merge > 0 {
		if w.remote, err = w.net.AddPeer("R").Start(nil); err != nil {
			return nil, err
		}
		ids := []string{inst.DB.Identity().ID, w.remote.DB.Identity().ID}
		if pre > 0 {
			if w.remote2, err = w.net.AddPeer("Q").Start(nil); err != nil {
				return nil, err
			}
			ids = append(ids, w.remote2.DB.Identity().ID)
		}
		ac := accesscontroller.NewEmptyManifestParams()
		ac.SetAccess("write", ids)
		copts.AccessController = ac
	}
	s, err := inst.DB.Create(bg, "db", w.storeType(), copts)
	if err != nil {
		return nil, err
	}
	w.store, w.addr = s, s.Address().String()
	w.k0, w.identity = len(w.peer.Effects()), inst.DB.Identity().ID
	if pre > 0 && w.remote2 != nil {
		qs, err := w.remote2.DB.Open(bg, w.addr, &orbitdb.CreateDBOptions{Replicate: boolp(false)})
		if err != nil {
			return nil, err
		}
		w.store = qs
		for j := 0; j < pre; j++ {
			payload := fmt.Sprintf("q.%d", j)
			h, err := w.write(8, j, payload)
			if err != nil {
				w.store = s
				return nil, err
			}
			w.acked[payload] = h
		}
		w.store = s
		hs, err := WireCopy(w.addr, qs.OpLog().Heads().Slice())
		if err != nil {
			return nil, err
		}
		if err := s.Sync(bg, hs); err != nil {
			return nil, err
		}
		if err := sim.Quiesce(); err != nil {
			return nil, err
		}
		for _, e := range qs.OpLog().GetEntries().Slice() {
			if _, ok := s.OpLog().Get(e.GetHash()); !ok {
				return nil, fmt.Errorf("pre-merge incomplete")
			}
			w.peer.Ack("R:" + e.GetHash().String()) // reported as replicated: must survive any later crash
		}
	}
	var remoteHeads []ipfslog.Entry
	if merge > 0 {
		rs, err := w.remote.DB.Open(bg, w.addr, &orbitdb.CreateDBOptions{Replicate: boolp(false)})
		if err != nil {
			return nil, err
		}
		w.store = rs
		for j := 0; j < merge; j++ {
			payload := fmt.Sprintf("r.%d", j)
			h, err := w.write(9, j, payload)
			if err != nil {
				w.store = s
				return nil, err
			}
			w.acked[payload] = h // must be visible once the merge has completed
		}
		w.store = s
		if remoteHeads, err = WireCopy(w.addr, rs.OpLog().Heads().Slice()); err != nil {
			return nil, err
		}
		if err := sim.Quiesce(); err != nil {
			return nil, err
		}
	}
	sim.UsePointGates(w.net.Gates, pointDetail)
	w.net.Gates.Enable(func(kind, peer, key, caller string) bool {
		if kind == "cache.put" {
			return w.faultsInit > 0 && peer == "W" && strings.HasSuffix(key, "_localHeads")
		}
		if kind != "point" || key == "driver" {
			return false
		}
		if status && (peer == "lock" || peer == "rlock") && (strings.HasPrefix(caller, "replicator.(*replicationInfo)") || strings.HasPrefix(caller, "basestore.(*BaseStore).recalculate")) {
			return true
		}
		if (status || (locks && merge > 0)) && strings.HasPrefix(peer, "replemit.") {
			return true // the replicator's emissions come from several goroutines: their order is the explorer's choice
		}
		if strings.HasPrefix(peer, "write.") || strings.HasPrefix(peer, "index.") || peer == "merge.begin" {
			return true
		}
		// lock points: the write path of the store and the index implementations
		// (every lock of the store and of the index implementations, including the accessors OpLog() and Index():
		// a value fetched through an accessor may be stale by the next statement)
		if status {
			// the status unit keeps to the write path, the merge handler and the indices besides the status code
			return locks && (peer == "lock" || peer == "rlock") &&
				(strings.Contains(caller, "Index") || strings.HasPrefix(caller, "basestore.(*BaseStore).AddOperation") || strings.HasPrefix(caller, "basestore.(*BaseStore).updateIndex") ||
					strings.HasPrefix(caller, "basestore.(*BaseStore).replicationLoadComplete"))
		}
		return locks && (peer == "lock" || peer == "rlock") && (strings.Contains(caller, "Index") || strings.HasPrefix(caller, "basestore."))
	})
	if merge > 0 {
		w.n++ // the merging thread counts as a writer that must return
		go func() {
			sim.TagGoroutine("m0")
			defer sim.UntagGoroutine()
			if pre > 0 {
				_, _ = w.net.Gates.Pass(bg, "point", "merge.begin", "m0")
			}
			err := w.store.Sync(bg, remoteHeads)
			w.mu.Lock()
			if err != nil {
				w.errs["merge"] = err
			}
			w.done++
			w.mu.Unlock()
		}()
		if err := sim.Quiesce(); err != nil {
			return nil, err
		}
	}
	for k := 0; k < n; k++ {
		k := k
		go func() {
			sim.TagGoroutine(fmt.Sprintf("w%d", k))
			defer sim.UntagGoroutine()
			for j := 0; j < per; j++ {
				payload := fmt.Sprintf("w%d.%d", k, j)
				h, err := w.write(k, j, payload)
				w.mu.Lock()
				if err != nil {
					w.errs[payload] = err
				} else {
					w.acked[payload] = h
					w.peer.Ack("W:" + h) // position of the acknowledgement in the peer's effect log (C05)
				}
				w.mu.Unlock()
			}
			w.mu.Lock()
			w.done++
			w.mu.Unlock()
		}()
		if err := sim.Quiesce(); err != nil {
			return nil, err
		}
	}
	return w, nil
}

func (w *ConcWriters) Enabled() []string {
	var out []string
	for _, l := range w.net.Gates.Parked() {
		out = append(out, l)
	}
	if w.faults > 0 {
		for _, l := range w.net.Gates.Parked() {
			if strings.HasPrefix(l, "cache.put|") {
				out = append(out, "fail:"+l)
			}
		}
	}
	if w.locks && w.last != "" {
		// lock-granularity worlds count preemptions: the thread that made the last step comes first, so that
		// taking any other enabled thread is the deviation
		sort.SliceStable(out, func(i, j int) bool { return threadOf(out[i]) == w.last && threadOf(out[j]) != w.last })
	}
	return out
}

// threadOf extracts the writer name from a label (the detail field is "w<k>" or "w<k>.<j>").
func threadOf(label string) string {
	f := strings.Split(label, "|")
	if len(f) < 3 {
		return ""
	}
	t := f[2]
	if i := strings.IndexByte(t, '.'); i >= 0 {
		t = t[:i]
	}
	return t
}

func (w *ConcWriters) Do(a string) error {
	w.last = threadOf(a)
	if strings.HasPrefix(a, "fail:") {
		w.faults--
		if err := w.net.Gates.Release(a[5:], sim.AnswerFail); err != nil {
			return err
		}
	} else if err := w.net.Gates.Release(a, sim.AnswerOK); err != nil {
		return err
	}
	if err := sim.Quiesce(); err != nil {
		return err
	}
	if w.status {
		st := w.store.ReplicationStatus()
		p, m := st.GetProgress(), st.GetMax()
		if p < w.lastP || m < w.lastM {
			w.pending = append(w.pending, explore.Violation{Signature: "replication-status-decreased-under-concurrency",
				Detail: fmt.Sprintf("after releasing %s: (progress,max) went from (%d,%d) to (%d,%d)", a, w.lastP, w.lastM, p, m)})
		}
		w.lastP, w.lastM = p, m
		if explore.ReplayOnly != nil {
			fmt.Printf("    status: progress=%d max=%d entries=%d\n", p, m, w.store.OpLog().Len())
		}
	}
	return nil
}

func (w *ConcWriters) Key() string { return "" }
func (w *ConcWriters) Check(hist []string) []explore.Violation {
	out := w.pending
	w.pending = nil
	return out
}

func listPayloads(s iface.EventLogStore) (map[string]int, error) {
	ops, err := s.List(bg, &iface.StreamOptions{Amount: intp(-1)})
	if err != nil {
		return nil, err
	}
	m := map[string]int{}
	for _, o := range ops {
		m[string(o.GetValue())]++
	}
	return m, nil
}

// Final: all writers returned; every acknowledged write appears exactly once, before and after restart.
func (w *ConcWriters) Final() []explore.Violation {
	var out []explore.Violation
	w.mu.Lock()
	done, acked := w.done, map[string]string{}
	for k, v := range w.acked {
		acked[k] = v
	}
	nerr := len(w.errs)
	w.mu.Unlock()
	if done != w.n {
		return []explore.Violation{{Signature: "writer-never-returned", Detail: fmt.Sprintf("%d of %d writers returned although nothing is parked", done, w.n)}}
	}
	_ = nerr
	w.mu.Lock()
	merr := w.errs["merge"]
	w.mu.Unlock()
	if merr != nil {
		out = append(out, explore.Violation{Signature: "merge-failed-during-concurrent-writes", Detail: merr.Error()})
	}
	// every writer has returned: the harness's own reads below must not park at schedule points
	w.net.Gates.Enable(nil)
	seen := map[string]string{}
	for p, h := range acked {
		if q, dup := seen[h]; dup {
			out = append(out, explore.Violation{Signature: "two-writes-acknowledged-with-one-entry", Detail: fmt.Sprintf("%s and %s both returned %s", p, q, h)})
		}
		seen[h] = p
	}
	before, err := w.visible(w.store)
	if err != nil {
		return append(out, explore.Violation{Signature: "list-error", Detail: err.Error()})
	}
	var keys []string
	for p := range acked {
		keys = append(keys, p)
	}
	sort.Strings(keys)
	for _, p := range keys {
		if before[p] != 1 {
			out = append(out, explore.Violation{Signature: "acknowledged-write-not-visible-once", Detail: fmt.Sprintf("write %s acknowledged but recorded %d times before restart (log %v)", p, before[p], before)})
		}
	}
	// (a write that failed on a storage fault leaves its entry in the in-memory log without a view update; the
	// statement speaks about calls that returned success only, so the view is not compared with the log then)
	if msg := viewVsReplay(w.store); msg != "" && nerr == 0 {
		out = append(out, explore.Violation{Signature: "view-differs-from-log-after-concurrent-writes", Detail: msg})
	}
	// restart
	_ = w.inst.Close()
	if err := sim.Quiesce(); err != nil {
		return append(out, explore.Violation{Signature: "hang-on-close", Detail: err.Error()})
	}
	w.net.Gates.Enable(nil)
	inst, err := w.peer.Start(nil)
	if err != nil {
		return append(out, explore.Violation{Signature: "restart-failed", Detail: err.Error()})
	}
	w.inst = inst
	s, err := inst.DB.Open(bg, w.addr, &orbitdb.CreateDBOptions{Replicate: boolp(false)})
	if err != nil {
		return append(out, explore.Violation{Signature: "reopen-failed", Detail: err.Error()})
	}
	w.store = s
	if err := s.Load(bg, -1); err != nil {
		return append(out, explore.Violation{Signature: "load-failed", Detail: err.Error()})
	}
	_ = sim.Quiesce()
	after, err := w.visible(s)
	if err != nil {
		return append(out, explore.Violation{Signature: "list-error", Detail: err.Error()})
	}
	for _, p := range keys {
		if after[p] != 1 {
			out = append(out, explore.Violation{Signature: "acknowledged-write-lost-after-restart",
				Detail: fmt.Sprintf("write %s acknowledged, listed before restart, but listed %d times after reopen+Load(-1): before=%v after=%v", p, after[p], before, after)})
			break
		}
	}
	return out
}

// visible counts, per written payload, the entries of the store's log that carry it.
func (w *ConcWriters) visible(s iface.Store) (map[string]int, error) {
	if el, ok := s.(iface.EventLogStore); ok {
		return listPayloads(el)
	}
	m := map[string]int{}
	for _, e := range s.OpLog().Values().Slice() {
		op, err := parseOp(e)
		if err != nil {
			return nil, err
		}
		v := string(op.GetValue())
		if w.storeType() == "docstore" {
			var d map[string]interface{}
			if json.Unmarshal(op.GetValue(), &d) == nil {
				v, _ = d["v"].(string)
			}
		}
		m[v]++
	}
	return m, nil
}

// viewVsReplay compares a key-value or document store's view with the replay of its own log.
func viewVsReplay(s iface.Store) string {
	vals := s.OpLog().Values().Slice()
	switch st := s.(type) {
	case iface.KeyValueStore:
		ref, _ := RefKV(vals)
		if got := st.All(); !sameKV(ref, got) {
			return fmt.Sprintf("All()=%s but the log replays to %s", kvString(got), kvString(ref))
		}
	case iface.DocumentStore:
		ref, _ := RefDocs(vals)
		ds, _ := st.Query(bg, func(interface{}) (bool, error) { return true, nil })
		if g, want := docsMultiset(ds), refMultiset(ref, func(string, []byte) bool { return true }); g != want {
			return fmt.Sprintf("documents %s but the log replays to %s", g, want)
		}
	}
	return ""
}

// WatchWriteEvents subscribes to the instance's write events with a buffer larger than the number of writes,
// so that no emission ever waits for the harness.
func (w *ConcWriters) WatchWriteEvents() error {
	sub, err := w.inst.Bus.Subscribe(new(stores.EventWrite), eventbus.BufSize(64))
	if err != nil {
		return err
	}
	w.evSub = sub
	return nil
}

// WriteEventViolations: all writers have returned; every acknowledged local write was announced by exactly
// one write event carrying the entry its call returned, and no write event carries anything else (C16).
func (w *ConcWriters) WriteEventViolations() []explore.Violation {
	if w.evSub == nil {
		return nil
	}
	w.net.Gates.Enable(nil)
	_ = sim.Quiesce()
	got := map[string]int{}
	for drained := false; !drained; {
		select {
		case evt := <-w.evSub.Out():
			if e, ok := evt.(stores.EventWrite); ok && e.Address.String() == w.addr && e.Entry != nil {
				got[e.Entry.GetHash().String()]++
			}
		default:
			drained = true
		}
	}
	w.mu.Lock()
	local := map[string]string{}
	for p, h := range w.acked {
		if !strings.HasPrefix(p, "r.") && !strings.HasPrefix(p, "q.") {
			local[h] = p
		}
	}
	nerr := len(w.errs)
	w.mu.Unlock()
	var out []explore.Violation
	hs := make([]string, 0, len(local))
	for h := range local {
		hs = append(hs, h)
	}
	sort.Strings(hs)
	for _, h := range hs {
		if got[h] != 1 {
			out = append(out, explore.Violation{Signature: fmt.Sprintf("concurrent-write-announced-%d-times", got[h]),
				Detail: fmt.Sprintf("the write of %q returned entry %s; %d write events carry it (events by entry: %v)", local[h], short4(h), got[h], got)})
		}
	}
	if nerr == 0 {
		for h, n := range got {
			if _, ok := local[h]; !ok {
				out = append(out, explore.Violation{Signature: "write-event-carries-entry-no-call-returned", Detail: fmt.Sprintf("%d write events carry %s", n, short4(h))})
			}
		}
	}
	return out
}

func (w *ConcWriters) Close() {
	if w.evSub != nil {
		_ = w.evSub.Close()
	}
	w.net.Gates.Enable(nil)
	for i := 0; i < 50; i++ {
		if w.net.Gates.ReleaseAll() == 0 {
			break
		}
		_ = sim.Quiesce()
	}
	_ = w.inst.Close()
	if w.remote != nil {
		_ = w.remote.Close()
	}
	if w.remote2 != nil {
		_ = w.remote2.Close()
	}
	_ = sim.Quiesce()
}

type C17Arg struct {
	Faults                       int // storage faults: head-list writes that may fail
	Pre                          int
	Merge                        int
	Locks                        bool
	Kind                         string
	N, Per, Bound, Shards, Shard int
}

func (a C17Arg) Name() string {
	k := a.Kind
	if k == "" {
		k = "eventlog"
	}
	if a.Locks {
		k += "+lockpoints"
	}
	if a.Merge > 0 {
		k += fmt.Sprintf("+merge%d", a.Merge)
	}
	if a.Pre > 0 {
		k += fmt.Sprintf("+premerged%d", a.Pre)
	}
	if a.Faults > 0 {
		k += fmt.Sprintf("+headwritefaults%d", a.Faults)
	}
	return fmt.Sprintf("concwriters/%s/n%d/per%d/dev%d/shard%d.%d", k, a.N, a.Per, a.Bound, a.Shard, a.Shards)
}

func c17Units(base C17Arg, shards int) []explore.Unit {
	var out []explore.Unit
	for s := 0; s < shards; s++ {
		a := base
		a.Shards, a.Shard = shards, s
		b, _ := json.Marshal(a)
		out = append(out, explore.Unit{Name: a.Name(), Arg: string(b)})
	}
	return out
}

func init() {
	explore.Register(&explore.CheckDef{
		ID: "C17", Level: "model_checking",
		Rule: "N goroutines each issue one write on one store (event log; key-value and document store with the same or distinct keys); every writer is stepped by the explorer through the schedule points begin / after log append / after head persisted / between reading the log and locking the index / after view update (hooks H4, H5); all interleavings for N=2 and N=3 (N=3 bounded in quick), all schedules with <= 2 deviations for N=4..8; lock-granularity units: the store and index files are built with the vsync shim, every Lock/RLock of the write path, of replicationLoadComplete and of the index implementations is a schedule point too, and all schedules with <= 2 (thorough: 3) preemptions are run for two writers and for one writer against a thread that merges a remote writer's two entries (Sync); every execution runs to completion, then the instance is closed, reopened on the same cache and loaded. Units with a storage fault let one write of the cached local head fail (explorer's choice which). Oracle: acknowledged calls returned pairwise distinct entries, each recorded exactly once before restart and exactly once after reopen+Load(-1), and the key-value / document view equals the replay of the store's own log once all writers have returned. Non-trivial = executions with at least one deviation from the canonical (sequential) schedule.",
		Units: func(tier string) []explore.Unit {
			var u []explore.Unit
			u = append(u, c17Units(C17Arg{N: 2, Per: 1, Bound: -1}, 8)...)
			// key-value and document stores: the extra point between reading the log and locking the index
			kb := 4
			if tier == "thorough" {
				kb = -1
			}
			for _, k := range []string{"keyvalue-same", "keyvalue-distinct", "docstore-same"} {
				u = append(u, c17Units(C17Arg{Kind: k, N: 2, Per: 1, Bound: kb}, 8)...)
			}
			// storage faults: the write of the cached local head may fail once (a write acknowledged all the same must
			// still be recoverable)
			for _, k := range []string{"eventlog", "keyvalue-same"} {
				u = append(u, c17Units(C17Arg{Kind: k, N: 2, Per: 1, Bound: 3, Faults: 1}, 8)...)
			}
			// lock granularity: every Lock/RLock of the write path and of the index implementations is a point
			lb := 2
			if tier == "thorough" {
				lb = 3
			}
			for _, k := range []string{"eventlog", "keyvalue-same", "docstore-same"} {
				u = append(u, c17Units(C17Arg{Kind: k, N: 2, Per: 1, Bound: lb, Locks: true}, 8)...)
				// one writer against a replication merge of a remote writer's two entries
				u = append(u, c17Units(C17Arg{Kind: k, N: 1, Per: 1, Bound: lb - 1, Locks: true, Merge: 2}, 8)...)
			}
			if tier == "thorough" {
				u = append(u, c17Units(C17Arg{N: 3, Per: 1, Bound: -1}, 48)...)
				u = append(u, c17Units(C17Arg{N: 2, Per: 2, Bound: -1}, 32)...)
				for _, n := range []int{4, 5, 6, 8} {
					u = append(u, c17Units(C17Arg{N: n, Per: 1, Bound: 2}, 16)...)
				}
			} else {
				u = append(u, c17Units(C17Arg{N: 3, Per: 1, Bound: 3}, 24)...)
				u = append(u, c17Units(C17Arg{N: 2, Per: 2, Bound: 3}, 16)...)
				u = append(u, c17Units(C17Arg{N: 4, Per: 1, Bound: 2}, 16)...)
				u = append(u, c17Units(C17Arg{N: 8, Per: 1, Bound: 1}, 8)...)
			}
			return u
		},
		Budget: func(tier string) float64 {
			if tier == "thorough" {
				return 1500
			}
			return 200
		},
		RunUnit: func(c *explore.Ctx) {
			var a C17Arg
			if err := json.Unmarshal([]byte(c.Spec.Unit.Arg), &a); err != nil {
				c.Stats.HarnessErrs = append(c.Stats.HarnessErrs, err.Error())
				return
			}
			d := &explore.ScheduleDFS{
				Settle:   settle,
				Scenario: a.Name(),
				New: func() (explore.World, error) {
					k := a.Kind
					if k == "" {
						k = "eventlog"
					}
					w, err := NewConcWritersMerge(k, a.N, a.Per, a.Locks, a.Merge)
					if err == nil {
						w.faults, w.faultsInit = a.Faults, a.Faults
					}
					return w, err
				},
				Bound:    a.Bound, Horizon: 400, Stats: c.Stats, Journal: c.JournalHist, Expired: c.Expired,
				Shards: a.Shards, Shard: a.Shard,
				Terminal: func(w explore.World, hist []string) []explore.Violation { return w.(*ConcWriters).Final() },
			}
			d.Run()
			for i := range c.Stats.Violations {
				c.Stats.Violations[i].Property = "C17"
			}
		},
		Assumptions: []string{
			"environment is the deterministic simulation in /verif/mc/sim; cache puts are atomic and durable when they return",
			"interleaving points are the H4/H5 hooks and, in the lock-granularity units, every Lock/RLock in stores/basestore, stores/*/index.go (import of sync rewritten to the vsync shim at build time by tools/shim_overlay.py); the stretches between them run freely (append itself is serialised by the log's lock)",
		},
	})
}
