package scen

import (
	"berty.tech/go-orbit-db/pubsub/oneonone"
	"context"
	"fmt"
	"github.com/libp2p/go-libp2p/core/peer"
	"os"
	"sort"
	"strings"
	"sync"

	ipfslog "berty.tech/go-ipfs-log"
	orbitdb "berty.tech/go-orbit-db"
	"berty.tech/go-orbit-db/accesscontroller"
	"berty.tech/go-orbit-db/iface"
	"verifmc/explore"
	"verifmc/sim"
)

type asyncCall struct {
	name string
	mu   sync.Mutex
	done bool
	err  error
}

func async(name string, fn func() error) *asyncCall {
	c := &asyncCall{name: name}
	go func() {
		err := fn()
		c.mu.Lock()
		c.done, c.err = true, err
		c.mu.Unlock()
	}()
	return c
}

func (c *asyncCall) finished() bool {
	c.mu.Lock()
	defer c.mu.Unlock()
	return c.done
}

type c18Case struct {
	Kind    string // store type
	Setup   string // idle | write@<point> | repl@<point> | load@fetch
	Inject  string // close | close2 | iclose | iclose2 | drop | close+drop
	Sibling bool
	// SharedOpts: the sibling and the database under test are created with ONE options value
	SharedOpts bool
}

func (c c18Case) ID() string {
	sh := ""
	if c.SharedOpts {
		sh = " (created with one options value)"
	}
	return fmt.Sprintf("%s setup=%s inject=%s sibling=%v%s", c.Kind, c.Setup, c.Inject, c.Sibling, sh)
}

func c18Cases(tier string) []c18Case {
	setups := []string{"idle", "write@write.begin", "write@dag.add", "write@write.afterAppend", "write@cache.put", "write@write.afterPersist", "write@write.afterIndex",
		"repl@dag.get", "repl@repl.beforeSlot", "repl@repl.afterDequeue", "repl@repl.beforeDone", "repl@store.beforeLoadComplete", "load@dag.get"}
	injects := []string{"close", "close2", "iclose", "iclose2", "drop", "close+drop", "close+reopen+staleclose+iclose"}
	kinds := []string{"eventlog", "keyvalue"}
	if tier == "thorough" {
		kinds = append(kinds, "docstore")
	}
	var out []c18Case
	for _, k := range kinds {
		for _, s := range setups {
			for _, i := range injects {
				for _, sib := range []bool{false, true} {
					out = append(out, c18Case{Kind: k, Setup: s, Inject: i, Sibling: sib})
					if sib {
						out = append(out, c18Case{Kind: k, Setup: s, Inject: i, Sibling: true, SharedOpts: true})
					}
				}
			}
		}
	}
	return out
}

func multisetDiff(base, now []string) []string {
	m := map[string]int{}
	for _, b := range base {
		m[b]++
	}
	var extra []string
	for _, n := range now {
		if m[n] > 0 {
			m[n]--
		} else {
			extra = append(extra, n)
		}
	}
	sort.Strings(extra)
	return extra
}

func runC18Case(c c18Case) (string, []explore.Violation) {
	var vs []explore.Violation
	bad := func(sig, detail string) {
		vs = append(vs, explore.Violation{Signature: sig, Detail: c.ID() + ": " + detail})
	}
	net := sim.NewNet()
	net.PubSub.AutoDeliver = true
	sim.UsePointGates(net.Gates, func(string, interface{}) string { return "" })
	pPeer, aPeer := net.AddPeer("P"), net.AddPeer("A")
	defer func() { net.Gates.Enable(nil); net.Gates.ReleaseAll(); _ = sim.Quiesce() }()
	P, err := pPeer.Start(nil)
	if err != nil {
		return "harness: " + err.Error(), nil
	}
	var sib iface.Store
	sibView, sibSpace := "", ""
	var sharedOpts *orbitdb.CreateDBOptions
	if c.SharedOpts {
		sharedOpts = &orbitdb.CreateDBOptions{Replicate: boolp(true)}
	}
	if c.Sibling {
		sopts := &orbitdb.CreateDBOptions{Replicate: boolp(true)}
		if c.SharedOpts {
			sopts = sharedOpts
		}
		sib, err = P.DB.Create(bg, "sibling", "keyvalue", sopts)
		if err != nil {
			return "harness: " + err.Error(), nil
		}
		_ = writeAny(sib, "s1")
		sibView = viewAny(sib) + "|" + strings.Join(hashesOf(sib.OpLog().Values().Slice()), ",")
	}
	_ = sim.Quiesce()
	baseline := sim.RepoGoroutines() // instance (and sibling) goroutines that legitimately stay
	A, err := aPeer.Start(nil)
	if err != nil {
		return "harness: " + err.Error(), nil
	}
	aOpen := true
	closeA := func() {
		if aOpen {
			aOpen = false
			_ = A.Close()
			_ = sim.Quiesce()
		}
	}
	defer closeA()
	ac := accesscontroller.NewEmptyManifestParams()
	ac.SetAccess("write", []string{P.DB.Identity().ID, A.DB.Identity().ID})
	dbOpts := &orbitdb.CreateDBOptions{AccessController: ac, Replicate: boolp(true)}
	if c.SharedOpts {
		dbOpts = sharedOpts
		dbOpts.AccessController = ac
	}
	s, err := P.DB.Create(bg, "db", c.Kind, dbOpts)
	if err != nil {
		return "harness: " + err.Error(), nil
	}
	addr := s.Address().String()
	sa, err := A.DB.Open(bg, addr, &orbitdb.CreateDBOptions{Replicate: boolp(false)})
	if err != nil {
		return "harness: " + err.Error(), nil
	}
	acked := map[string]bool{}
	ack := func(st iface.Store) {
		for _, h := range st.OpLog().Heads().Slice() {
			acked[h.GetHash().String()] = true
		}
	}
	_ = writeAny(s, "p1")
	ack(s)
	_ = writeAny(s, "p2")
	ack(s)
	_ = sim.Quiesce()
	spacesBefore := func() []string { d, _ := pPeer.Durable(); return d.Spaces() }
	for _, sp := range spacesBefore() {
		if strings.HasSuffix(sp, "/sibling") {
			sibSpace = sp
		}
	}
	var inflight []*asyncCall
	setupKind, point, _ := strings.Cut(c.Setup, "@")
	gateOn := func(match func(kind, peer, key, caller string) bool) { net.Gates.Enable(match) }
	switch setupKind {
	case "idle":
	case "write":
		gateOn(func(kind, peer, key, caller string) bool {
			if strings.HasPrefix(point, "write.") {
				return kind == "point" && peer == point
			}
			return kind == point && peer == "P"
		})
		inflight = append(inflight, async("in-flight write", func() error { return writeAny(s, "p3") }))
	case "repl":
		_ = writeAny(sa, "a1")
		_ = writeAny(sa, "a2")
		gateOn(func(kind, peer, key, caller string) bool {
			if point == "dag.get" {
				return kind == "dag.get" && peer == "P"
			}
			return kind == "point" && peer == point
		})
		hs, _ := WireCopy(addr, sa.OpLog().Heads().Slice())
		inflight = append(inflight, async("in-flight sync", func() error { return s.Sync(bg, hs) }))
	case "load":
		// bring remote data in, restart the store object, then park its Load in a fetch
		_ = writeAny(sa, "a1")
		hs, _ := WireCopy(addr, sa.OpLog().Heads().Slice())
		_ = s.Sync(bg, hs)
		_ = sim.Quiesce()
		for _, e := range s.OpLog().GetEntries().Slice() {
			acked[e.GetHash().String()] = true
		}
		_ = s.Close()
		_ = sim.Quiesce()
		if s, err = P.DB.Open(bg, addr, &orbitdb.CreateDBOptions{Replicate: boolp(true)}); err != nil {
			return "harness: reopen " + err.Error(), nil
		}
		gateOn(func(kind, peer, key, caller string) bool { return kind == "dag.get" && peer == "P" })
		inflight = append(inflight, async("in-flight load", func() error { return s.Load(bg, -1) }))
	}
	if err := sim.Quiesce(); err != nil {
		return "harness: not quiescent after setup", nil
	}
	finalHeads, _ := WireCopy(addr, sa.OpLog().Heads().Slice())
	closeA() // the remote instance's goroutines must not be mistaken for leaks; its blocks stay fetchable
	parkedAtInjection := len(net.Gates.Parked())
	if setupKind != "idle" && parkedAtInjection == 0 {
		return "setup point not reached (nothing parked)", nil
	}
	// inject
	var injected []*asyncCall
	switch c.Inject {
	case "close":
		injected = append(injected, async("store.Close", s.Close))
	case "close2":
		injected = append(injected, async("store.Close", s.Close))
		_ = sim.Quiesce()
		injected = append(injected, async("store.Close #2", s.Close))
	case "iclose":
		injected = append(injected, async("orbitdb.Close", P.DB.Close))
	case "iclose2":
		injected = append(injected, async("orbitdb.Close", P.DB.Close))
		_ = sim.Quiesce()
		injected = append(injected, async("orbitdb.Close #2", P.DB.Close))
	case "drop":
		injected = append(injected, async("store.Drop", s.Drop))
	case "close+drop":
		injected = append(injected, async("store.Close", s.Close))
		_ = sim.Quiesce()
		injected = append(injected, async("store.Drop", s.Drop))
	case "close+reopen+staleclose+iclose":
		// close the handle, open the same database again on the same instance, close the stale handle once
		// more (must be a no-op), then close the instance: the second handle must be closed with it
		injected = append(injected, async("store.Close", s.Close))
		_ = sim.Quiesce()
		net.Gates.Enable(nil)
		for i := 0; i < 50 && net.Gates.ReleaseAll() > 0; i++ {
			_ = sim.Quiesce()
		}
		_ = sim.Quiesce()
		reopened, err := P.DB.Open(bg, addr, &orbitdb.CreateDBOptions{Replicate: boolp(true)})
		if err != nil {
			bad("reopen-after-close-failed", err.Error())
		} else {
			_ = reopened.Load(bg, -1)
			_ = sim.Quiesce()
		}
		injected = append(injected, async("store.Close #2", s.Close))
		_ = sim.Quiesce()
		injected = append(injected, async("orbitdb.Close", P.DB.Close))
	}
	if err := sim.Quiesce(); err != nil {
		bad("hang:not-quiescent-after-"+c.Inject, "system keeps running")
		return "hang", vs
	}
	// release everything that was parked (the environment answers, the hooks let go)
	net.Gates.Enable(nil)
	for i := 0; i < 100; i++ {
		if net.Gates.ReleaseAll() == 0 {
			break
		}
		_ = sim.Quiesce()
	}
	_ = sim.Quiesce()
	for _, call := range append(injected, inflight...) {
		if !call.finished() {
			bad("hang:"+strings.Fields(call.name)[0]+"-never-returned", fmt.Sprintf("%s has not returned at quiescence (setup %s)", call.name, c.Setup))
		}
	}
	for _, call := range injected {
		if call.finished() && call.err != nil && strings.Contains(call.name, "#2") {
			bad("second-close-not-a-noop", fmt.Sprintf("%s returned %v", call.name, call.err))
		}
	}
	// every operation once on the closed object
	var post []*asyncCall
	ctx := context.Background()
	post = append(post, async("post write", func() error { return writeAny(s, "late") }))
	post = append(post, async("post read", func() error { _ = viewAny(s); return nil }))
	post = append(post, async("post sync", func() error {
		return s.Sync(ctx, finalHeads)
	}))
	post = append(post, async("post load", func() error { return s.Load(ctx, -1) }))
	post = append(post, async("post close", s.Close))
	if err := sim.Quiesce(); err != nil {
		bad("hang:not-quiescent-after-post-close-operations", "")
	}
	for _, call := range post {
		if !call.finished() {
			bad("hang:operation-after-close-never-returned:"+strings.Fields(call.name)[1], fmt.Sprintf("%s after %s (setup %s) has not returned at quiescence", call.name, c.Inject, c.Setup))
		}
	}
	// leak check
	instanceClosed := strings.Contains(c.Inject, "iclose")
	now := sim.RepoGoroutines()
	want := baseline
	if instanceClosed {
		want = nil
	}
	if extra := multisetDiff(want, now); len(extra) > 0 {
		bad("goroutine-leak:"+leakClass(extra[0]), fmt.Sprintf("after %s (setup %s) these go-orbit-db goroutines remain: %v", c.Inject, c.Setup, extra))
	}
	// drop removes this database's local data and nothing else
	if strings.Contains(c.Inject, "drop") {
		// ... and whatever was in flight when it happened, the dropped store does not go on serving what was
		// written and acknowledged before the drop (p1, p2; the write in flight across the drop and writes issued
		// on the dropped object afterwards are not judged)
		// A Load that was in flight across the drop is not judged either: it had read the cached heads before the
		// drop and joins what it fetched afterwards; the statement does not order a Load against a concurrent Drop.
		if v := viewAny(s); !strings.HasPrefix(c.Setup, "load@") && (strings.Contains(v, "p1") || strings.Contains(v, "p2")) {
			bad("dropped-store-still-serves-earlier-data:"+strings.SplitN(c.Setup, "@", 2)[0], fmt.Sprintf("view after drop: %q", v))
		}
		for _, sp := range spacesBefore() {
			if strings.HasSuffix(sp, "/db") {
				bad("drop-left-local-data", "cache space "+sp+" still exists")
			}
		}
		if c.Sibling {
			found := false
			for _, sp := range spacesBefore() {
				if sp == sibSpace {
					found = true
				}
			}
			if !found {
				bad("drop-removed-sibling-data", "sibling cache space gone")
			}
			if v := viewAny(sib) + "|" + strings.Join(hashesOf(sib.OpLog().Values().Slice()), ","); v != sibView {
				bad("drop-changed-sibling", fmt.Sprintf("%q -> %q", sibView, v))
			}
		}
		_ = P.DB.Close()
		_ = sim.Quiesce()
		return "dropped", vs
	}
	if c.Sibling && !instanceClosed {
		if v := viewAny(sib) + "|" + strings.Join(hashesOf(sib.OpLog().Values().Slice()), ","); v != sibView {
			bad("close-changed-sibling", fmt.Sprintf("%q -> %q", sibView, v))
		}
	}
	// the in-flight write may have been acknowledged
	for _, call := range inflight {
		if call.name == "in-flight write" && call.finished() && call.err == nil {
			for _, e := range s.OpLog().GetEntries().Slice() {
				op, err := parseOp(e)
				if err == nil && (string(op.GetValue()) == "p3" || strings.Contains(string(op.GetValue()), "p3")) {
					acked[e.GetHash().String()] = true
				}
			}
		}
	}
	// reopen and load: all acknowledged data is there
	if !instanceClosed {
		_ = P.DB.Close()
		_ = sim.Quiesce()
	}
	// the instance is closed now whatever the injection was: nothing it started may still be running
	closeA()
	if left := sim.RepoGoroutines(); len(left) > 0 {
		bad("goroutine-leak-after-instance-close:"+leakClass(left[0]), fmt.Sprintf("after %s (setup %s) and closing the instance these go-orbit-db goroutines remain: %v", c.Inject, c.Setup, left))
	}
	P2, err := pPeer.Start(nil)
	if err != nil {
		bad("reopen-failed", err.Error())
		return "reopen failed", vs
	}
	defer func() { _ = P2.Close(); _ = sim.Quiesce() }()
	s2, err := P2.DB.Open(bg, addr, &orbitdb.CreateDBOptions{Replicate: boolp(false)})
	if err != nil {
		bad("reopen-failed", err.Error())
		return "reopen failed", vs
	}
	if err := s2.Load(bg, -1); err != nil {
		bad("reload-failed", err.Error())
	}
	_ = sim.Quiesce()
	var missing []string
	for h := range acked {
		found := false
		for _, e := range s2.OpLog().GetEntries().Slice() {
			if e.GetHash().String() == h {
				found = true
			}
		}
		if !found {
			missing = append(missing, short4(h))
		}
	}
	if len(missing) > 0 {
		bad("acknowledged-data-missing-after-close-and-reopen", fmt.Sprintf("%d acknowledged entries missing after %s at %s", len(missing), c.Inject, c.Setup))
	}
	return fmt.Sprintf("parked=%d", parkedAtInjection), vs
}

// runC18DiskDrop: an instance on a real directory (real leveldb cache) holds the dropped database and others whose
// files live next to it: an alias (the same manifest opened under a longer path) and/or a database with an empty
// name. After Drop, closing and reopening the directory, every other database still loads its acknowledged data.
func runC18DiskDrop(kind, victim string) (string, []explore.Violation) {
	id := fmt.Sprintf("on disk: %s, drop of %s, siblings keep their data", kind, victim)
	var vs []explore.Violation
	dir, err := os.MkdirTemp("", "verif-c18-")
	if err != nil {
		return "harness: " + err.Error(), nil
	}
	defer os.RemoveAll(dir)
	net := sim.NewNet()
	net.PubSub.AutoDeliver = true
	rPeer := net.AddPeer("R")
	open := func() (iface.OrbitDB, error) {
		return orbitdb.NewOrbitDB(bg, rPeer.API(), &orbitdb.NewOrbitDBOptions{Directory: &dir,
			DirectChannelFactory: net.PubSub.DirectChannelFactory(rPeer), PubSub: net.PubSub.PubSubFor(rPeer)})
	}
	db, err := open()
	if err != nil {
		return "harness: " + err.Error(), nil
	}
	stores := map[string]iface.Store{}
	addrs := map[string]string{}
	mk := func(label string, st iface.Store, err error) bool {
		if err != nil {
			return false // a database this instance refuses to create is simply not part of the case
		}
		stores[label], addrs[label] = st, st.Address().String()
		_ = writeAny(st, label+"-1")
		_ = writeAny(st, label+"-2")
		return true
	}
	m, err := db.Create(bg, "main", kind, &orbitdb.CreateDBOptions{Replicate: boolp(false)})
	if !mk("main", m, err) {
		return "harness: cannot create the main database", nil
	}
	al, err := db.Open(bg, addrs["main"]+"/alias", &orbitdb.CreateDBOptions{Replicate: boolp(false)})
	mk("alias", al, err)
	o, err := db.Create(bg, "other", kind, &orbitdb.CreateDBOptions{Replicate: boolp(false)})
	mk("other", o, err)
	e, err := db.Create(bg, "", kind, &orbitdb.CreateDBOptions{Replicate: boolp(false)})
	mk("noname", e, err)
	if _, ok := stores[victim]; !ok {
		_ = db.Close()
		return "skipped: the instance refuses a database of this form", nil
	}
	_ = sim.Quiesce()
	views := map[string]string{}
	for l, st := range stores {
		views[l] = viewAny(st)
	}
	if err := stores[victim].Drop(); err != nil {
		vs = append(vs, explore.Violation{Signature: "drop-failed:on-disk", Detail: id + ": " + err.Error()})
	}
	_ = db.Close()
	_ = sim.Quiesce()
	if db, err = open(); err != nil {
		return "reopen failed", append(vs, explore.Violation{Signature: "directory-not-reopenable-after-drop", Detail: id + ": " + err.Error()})
	}
	defer func() { _ = db.Close(); _ = sim.Quiesce() }()
	for l, a := range addrs {
		if l == victim {
			continue
		}
		if victim == "main" && l == "alias" {
			// the alias lives under the dropped database's own path ("<address>/alias"): its files are inside the
			// directory tree that is this database's local data, so their removal is not judged
			continue
		}
		st, err := db.Open(bg, a, &orbitdb.CreateDBOptions{Replicate: boolp(false)})
		if err != nil {
			vs = append(vs, explore.Violation{Signature: "drop-removed-sibling-data:on-disk", Detail: fmt.Sprintf("%s: %s cannot be opened again: %v", id, l, err)})
			continue
		}
		_ = st.Load(bg, -1)
		_ = sim.Quiesce()
		if v := viewAny(st); v != views[l] {
			vs = append(vs, explore.Violation{Signature: "drop-removed-sibling-data:on-disk", Detail: fmt.Sprintf("%s: %s showed %q before the drop of %s and shows %q after reopening the directory", id, l, views[l], victim, v)})
		}
	}
	return "ok", vs
}

// runC18ChannelFault: the instance's pairwise direct channel (pubsub/oneonone) over a scripted pubsub whose
// Subscribe fails k times: Connect reports the fault; afterwards Send, a second Connect and Close must all
// return (state-based: at quiescence none of them is still blocked).
func runC18ChannelFault(failures int) (string, []explore.Violation) {
	id := fmt.Sprintf("direct channel: %d failing subscription(s), then Send, Connect, Close", failures)
	var vs []explore.Violation
	self, p1, p2 := sim.DeterministicPeerID("self"), sim.DeterministicPeerID("p1"), sim.DeterministicPeerID("p2")
	ps := newScriptPubSub()
	ps.peersAlways = []peer.ID{p1, p2}
	ps.failNext = failures
	api := &scriptAPI{self: self, ps: ps}
	ctx, cancel := context.WithCancel(context.Background())
	defer cancel()
	ch, err := oneonone.NewChannelFactory(api)(ctx, &recEmitter{}, nil)
	if err != nil {
		return "harness: " + err.Error(), nil
	}
	for i := 0; i < failures; i++ {
		call := async("Connect with failing subscription", func() error { return ch.Connect(ctx, p1) })
		_ = sim.Quiesce()
		if !call.finished() {
			return "skipped: Connect is still in its built-in wait", nil
		}
		if call.err == nil {
			vs = append(vs, explore.Violation{Signature: "connect-hides-subscription-fault", Detail: id})
		}
	}
	for _, step := range []struct {
		name string
		f    func() error
	}{
		{"Send to another peer", func() error { return ch.Send(ctx, p2, []byte("x")) }},
		{"Close", func() error { return ch.Close() }},
	} {
		call := async(step.name, step.f)
		_ = sim.Quiesce()
		// Send to an unconnected peer may legitimately wait inside Connect's built-in delay: only a goroutine
		// blocked on a lock is a hang
		if !call.finished() {
			for _, g := range sim.Goroutines() {
				if strings.Contains(g.Stack, "pubsub/oneonone") && (strings.Contains(g.Status, "sync.Mutex.Lock") || strings.Contains(g.Status, "sync.RWMutex") || strings.Contains(g.Status, "semacquire")) {
					vs = append(vs, explore.Violation{Signature: "direct-channel-hangs-after-failed-connect:" + strings.Fields(step.name)[0], Detail: id + ": " + step.name + " is blocked on the channel's lock"})
					return "hang", vs
				}
			}
		}
	}
	return "ok", vs
}

func leakClass(g string) string {
	// "created-by @ innermost [status]" -> short function name
	parts := strings.Split(g, " @ ")
	f := parts[0]
	if len(parts) > 1 && parts[1] != "" {
		f = strings.Fields(parts[1])[0]
	}
	f = strings.TrimPrefix(f, "berty.tech/go-orbit-db/")
	if i := strings.Index(f, ".func"); i >= 0 {
		f = f[:i]
	}
	return f
}

var _ ipfslog.Entry

func init() {
	explore.Register(&explore.CheckDef{
		ID: "C18", Level: "exploration",
		Rule:   "cross product, each case on a fresh world: store type x moment {idle; in-flight write parked at each of 6 points (begin, block write, after append, head put, after persist, after view update); in-flight replication parked at each of 5 points (fetch, before slot, after dequeue, before done, before load-complete); in-flight Load parked in a fetch} x injection {store.Close, store.Close twice, orbitdb.Close, orbitdb.Close twice, store.Drop, Close then Drop, Close + reopen the same database + Close of the stale handle + orbitdb.Close} x {alone, with a sibling database on the same instance, with a sibling created through the same options value}. After the injection everything parked is released and every operation is issued once on the closed object. Oracle at quiescence (state-based, no timeouts): every call has returned, no panic, the go-orbit-db goroutines still alive are exactly those present before the store was opened (none after orbitdb.Close), after the instance is closed at the end none at all; reopening and loading yields all acknowledged entries, Drop removed this database's cache, left the sibling untouched and the dropped store no longer serves what was acknowledged before the drop. Plus Drop on a real directory (real leveldb cache) next to an alias of the same manifest, another database and a database with an empty name: after reopening the directory every other database shows what it showed before. Plus the instance's pairwise direct channel (pubsub/oneonone over a scripted pubsub) whose subscription fails once or twice: afterwards Send and Close must not block on the channel's lock. Non-trivial = cases with a goroutine parked mid-operation at the injection.",
		Units:  func(tier string) []explore.Unit { return explore.ChunkUnits("c18-"+tier, 16) },
		Budget: func(tier string) float64 { return 400 },
		RunUnit: func(c *explore.Ctx) {
			prefix, i, n := explore.ParseChunk(c.Spec.Unit.Arg)
			var cases []explore.Case
			for _, cs := range c18Cases(strings.TrimPrefix(prefix, "c18-")) {
				cs := cs
				cases = append(cases, explore.Case{ID: cs.ID(), Nontrivial: cs.Setup != "idle", Run: func() (string, []explore.Violation) { return runC18Case(cs) }})
			}
			for _, kind := range []string{"eventlog", "keyvalue"} {
				for _, victim := range []string{"main", "alias", "other", "noname"} {
					kind, victim := kind, victim
					cases = append(cases, explore.Case{ID: fmt.Sprintf("on-disk drop of %s (%s)", victim, kind), Nontrivial: true, Run: func() (string, []explore.Violation) { return runC18DiskDrop(kind, victim) }})
				}
			}
			for _, k := range []int{1, 2} {
				k := k
				cases = append(cases, explore.Case{ID: fmt.Sprintf("direct channel with %d failing subscription(s)", k), Nontrivial: true, Run: func() (string, []explore.Violation) { return runC18ChannelFault(k) }})
			}
			explore.RunCases(c, "C18", cases, i, n)
		},
		Assumptions: []string{
			"environment is the deterministic simulation in /verif/mc/sim; 'returns promptly' is decided by state (the world is quiescent and the call has not returned), never by a timer",
			"goroutines are attributed to go-orbit-db by their stack frames; the harness's own helper goroutines that are blocked inside a go-orbit-db call count as that call not returning",
		},
	})
}
