package scen

import (
	"encoding/json"
	"fmt"
	"strings"
	"sync"

	"berty.tech/go-orbit-db/stores/replicator"
	"verifmc/explore"
)

// statusMonitor implements C19: progress and max never decrease while a store is open (sampled inside
// every event emission and at every quiescent state); at rest progress == max and
// max Lamport time <= value <= number of entries.
type statusMonitor struct {
	mu   sync.Mutex
	last map[int][2]int
}

func installStatusMonitor(w *Writers, prop string) {
	m := &statusMonitor{last: map[int][2]int{}}
	sample := func(w *Writers, i int, where string) {
		if i >= len(w.Stores) || w.Stores[i] == nil {
			return
		}
		st := w.Stores[i].ReplicationStatus()
		// read and compare under one lock: samples taken by different goroutines are then totally
		// ordered consistently with the instants at which the values were read
		m.mu.Lock()
		p, mx := st.GetProgress(), st.GetMax()
		prev := m.last[i]
		if p > prev[0] {
			prev[0] = p
		}
		if mx > prev[1] {
			prev[1] = mx
		}
		old := m.last[i]
		m.last[i] = prev
		m.mu.Unlock()
		if p < old[0] {
			w.Report(explore.Violation{Property: prop, Signature: "progress-decreased", Detail: fmt.Sprintf("replica %d %s: progress %d -> %d (action %s)", i, where, old[0], p, w.LastAction)})
		}
		if mx < old[1] {
			w.Report(explore.Violation{Property: prop, Signature: "max-decreased", Detail: fmt.Sprintf("replica %d %s: max %d -> %d (action %s)", i, where, old[1], mx, w.LastAction)})
		}
	}
	w.EmitHooks = append(w.EmitHooks, func(w *Writers, i int, evt interface{}) {
		sample(w, i, fmt.Sprintf("at emission of %T", evt))
	})
	w.OnRestart = append(w.OnRestart, func(w *Writers, i int) {
		m.mu.Lock()
		m.last[i] = [2]int{}
		m.mu.Unlock()
	})
	w.After = append(w.After, func(w *Writers, a string) {
		for i := range w.Stores {
			sample(w, i, "at quiescence")
		}
	})
	w.Oracles = append(w.Oracles, func(w *Writers, hist []string) []explore.Violation {
		var out []explore.Violation
		for i, s := range w.Stores {
			st := s.ReplicationStatus()
			p, mx := st.GetProgress(), st.GetMax()
			n := s.OpLog().Len()
			vals := s.OpLog().Values().Slice()
			if len(vals) != n {
				continue // log not complete: the statement does not apply
			}
			if vs, ok := s.Replicator().(replicator.VerifStater); ok {
				if r := vs.VerifState(); len(r.Added) > 0 || len(r.Fetching) > 0 || r.BufferLen > 0 || r.QueueLen > 0 {
					continue // replication in progress (fetches parked by the explorer): not at rest
				}
			}
			if len(w.Net.Gates.Parked()) > 0 {
				continue
			}
			maxT := 0
			for _, e := range vals {
				if t := e.GetClock().GetTime(); t > maxT {
					maxT = t
				}
			}
			if p != mx {
				out = append(out, explore.Violation{Property: prop, Signature: "at-rest-progress-differs-from-max",
					Detail: fmt.Sprintf("replica %d: progress=%d max=%d len=%d maxTime=%d entries={%s}", i, p, mx, n, maxT, w.SetKey(i))})
			} else if p < maxT || p > n {
				sig := "at-rest-value-below-max-time"
				if p > n {
					sig = "at-rest-value-above-entry-count"
				}
				out = append(out, explore.Violation{Property: prop, Signature: sig,
					Detail: fmt.Sprintf("replica %d: progress=max=%d but maxTime=%d len=%d entries={%s}", i, p, maxT, n, w.SetKey(i))})
			}
		}
		return out
	})
}

func init() {
	explore.Register(&explore.CheckDef{
		ID: "C19", Level: "model_checking",
		Rule: "explicit-state DFS over histories of local writes, merges, announcements to an observer (sync/topic/direct), restarts with Load and snapshot save/load, single- and multi-writer, one database per instance; gated-merge units park every block fetch of a merging replica and enumerate the release orders together with a local write and a duplicate announcement in flight; (progress,max) sampled synchronously inside every event-bus emission and at every quiescent state must never decrease while the store is open; in every quiescent state with a complete log progress == max and max Lamport time <= value <= entry count. a lock-granularity unit (sync shim) runs a writer against a merging thread with every Lock/RLock of the status code, the write path and the index as schedule points (preemption-bounded) and samples (progress,max) after every step. Non-trivial = distinct states in which some replica holds entries of two writers.",
		Units: func(tier string) []explore.Unit {
			var u []explore.Unit
			d := 4
			if tier == "thorough" {
				d = 5
			}
			u = append(u, c01Units(C01Arg{DFSArg: DFSArg{Kind: "eventlog", Writers: 1, Depth: d + 1, Alpha: "one"}, Observer: true, Routes: []string{"sync", "topic"}, Reload: true, Snapshot: true}, 8)...)
			// deep enough for "two writers write twice each concurrently, merge, write again" (log length two
			// above the largest clock)
			u = append(u, c01Units(C01Arg{DFSArg: DFSArg{Kind: "eventlog", Writers: 2, Depth: d + 3, Alpha: "one", SD: 3}}, 16)...)
			u = append(u, c01Units(C01Arg{DFSArg: DFSArg{Kind: "eventlog", Writers: 2, Depth: d, Alpha: "one"}, Observer: true, Routes: []string{"sync", "direct"}, Reload: true, Snapshot: true}, 16)...)
			u = append(u, c01Units(C01Arg{DFSArg: DFSArg{Kind: "keyvalue", Writers: 3, Depth: d - 1, Alpha: "tiny"}, Reload: true}, 16)...)
			// storage faults: local writes whose head-list write fails (the entry may stay in the log unacknowledged)
			u = append(u, c01Units(C01Arg{DFSArg: DFSArg{Kind: "eventlog", Writers: 2, Depth: d, Alpha: "one"}, FaultWrite: true}, 8)...)
			// status updates from load-added, per-entry progress and local writes in every order
			gb := 2
			if tier == "thorough" {
				gb = 4
			}
			for _, sh := range []string{"own0-chain3", "own2-chain3", "own2-fork", "own1-chain2x2"} {
				u = append(u, gmUnits(GMArg{Kind: "eventlog", Shape: sh, Writes: 1, Dups: 1, Bound: gb}, 8, "G")...)
			}
			// lock granularity: a local write against the merge of two remote entries, every Lock/RLock of the
			// status code, the write path and the index being a schedule point (preemption-bounded)
			lcfg := []C17Arg{{Kind: "eventlog", N: 1, Per: 2, Bound: 2, Locks: true, Merge: 2}}
			if tier == "thorough" {
				lcfg = append(lcfg, C17Arg{Kind: "eventlog", N: 1, Per: 1, Bound: 3, Locks: true, Merge: 1},
					C17Arg{Kind: "eventlog", N: 2, Per: 1, Bound: 2, Locks: true, Merge: 2},
					C17Arg{Kind: "keyvalue-same", N: 1, Per: 2, Bound: 2, Locks: true, Merge: 2})
			}
			for _, cfg := range lcfg {
				for _, x := range c17Units(cfg, 16) {
					x.Arg = "L" + x.Arg
					x.Name = "status-" + x.Name
					u = append(u, x)
				}
			}
			return u
		},
		Budget: func(tier string) float64 {
			if tier == "thorough" {
				return 1500
			}
			return 400
		},
		RunUnit: func(c *explore.Ctx) {
			if strings.HasPrefix(c.Spec.Unit.Arg, "L") {
				var a C17Arg
				if err := json.Unmarshal([]byte(c.Spec.Unit.Arg[1:]), &a); err != nil {
					c.Stats.HarnessErrs = append(c.Stats.HarnessErrs, err.Error())
					return
				}
				d := &explore.ScheduleDFS{
					Settle: settle, Scenario: "status-" + a.Name(),
					New:    func() (explore.World, error) { return NewConcWritersStatus(a.Kind, a.N, a.Per, true, a.Merge, true) },
					Bound:  a.Bound, Horizon: 600, Stats: c.Stats, Journal: c.JournalHist, Expired: c.Expired,
					Shards: a.Shards, Shard: a.Shard,
					Terminal: func(w explore.World, hist []string) []explore.Violation {
						cw := w.(*ConcWriters)
						st := cw.store.ReplicationStatus()
						var out []explore.Violation
						if p, m := st.GetProgress(), st.GetMax(); p != m {
							out = append(out, explore.Violation{Signature: "at-rest-progress-differs-from-max", Detail: fmt.Sprintf("all threads returned, nothing parked: progress %d, max %d, %d entries", p, m, cw.store.OpLog().Len())})
						}
						return append(out, cw.Final()...)
					},
				}
				d.Run()
				for i := range c.Stats.Violations {
					c.Stats.Violations[i].Property = "C19"
				}
				return
			}
			if strings.HasPrefix(c.Spec.Unit.Arg, "G") {
				runGatedMerge(c, c.Spec.Unit.Arg[1:], "C19", func(w *Writers) { installStatusMonitor(w, "C19") })
				return
			}
			runC01Unit(c, "C19", func(w *Writers, a C01Arg) { installStatusMonitor(w, "C19") })
		},
		Assumptions: []string{
			"environment is the deterministic simulation in /verif/mc/sim; one database per instance (the property's scope)",
			"'at rest' = quiescent world (all goroutines parked) with OpLog().Values() listing every held entry",
		},
	})
}
