package scen

import (
	"bytes"
	"context"
	"encoding/binary"
	"fmt"
	multihash "github.com/multiformats/go-multihash"
	"sort"
	"strings"
	"sync"
	"time"

	"berty.tech/go-orbit-db/iface"
	"berty.tech/go-orbit-db/pubsub/directchannel"
	"berty.tech/go-orbit-db/pubsub/oneonone"
	"berty.tech/go-orbit-db/pubsub/pubsubcoreapi"
	coreiface "github.com/ipfs/kubo/core/coreiface"
	"github.com/ipfs/kubo/core/coreiface/options"
	"github.com/libp2p/go-libp2p/core/peer"
	"go.uber.org/zap"
	"verifmc/explore"
	"verifmc/sim"
)

// ---- scripted coreiface.PubSubAPI ----

type scriptMsg struct {
	from peer.ID
	data []byte
}

func (m scriptMsg) From() peer.ID    { return m.from }
func (m scriptMsg) Data() []byte     { return m.data }
func (m scriptMsg) Seq() []byte      { return nil }
func (m scriptMsg) Topics() []string { return nil }

type scriptSub struct {
	ch chan scriptMsg
}

func (s *scriptSub) Close() error { return nil }
func (s *scriptSub) Next(ctx context.Context) (coreiface.PubSubMessage, error) {
	select {
	case m := <-s.ch:
		return m, nil
	case <-ctx.Done():
		return nil, ctx.Err()
	}
}

type scriptPubSub struct {
	mu          sync.Mutex
	snapshots   chan []peer.ID // each Peers() call blocks for the next scripted snapshot
	subs        map[string]*scriptSub
	subscribed  []string
	published   []string
	peersAlways []peer.ID     // when set, Peers() answers immediately with this (oneonone)
	hold        chan struct{} // when set, Subscribe waits for it to be closed
	held        chan struct{} // the channel that was installed as hold (kept for closing)
	waiting     int           // callers currently inside a held Subscribe
	all         map[string][]*scriptSub
	failNext    int // the next failNext Subscribe calls fail (a fault of the underlying pubsub)
}

func (p *scriptPubSub) holdChan() chan struct{} { return p.held }

func newScriptPubSub() *scriptPubSub {
	return &scriptPubSub{snapshots: make(chan []peer.ID), subs: map[string]*scriptSub{}}
}

func (p *scriptPubSub) Ls(context.Context) ([]string, error) { return nil, nil }
func (p *scriptPubSub) Peers(ctx context.Context, _ ...options.PubSubPeersOption) ([]peer.ID, error) {
	p.mu.Lock()
	always := p.peersAlways
	p.mu.Unlock()
	if always != nil {
		return always, nil
	}
	select {
	case s := <-p.snapshots:
		return s, nil
	case <-ctx.Done():
		return nil, ctx.Err()
	}
}
func (p *scriptPubSub) Publish(_ context.Context, topic string, data []byte) error {
	p.mu.Lock()
	p.published = append(p.published, topic)
	p.mu.Unlock()
	return nil
}
func (p *scriptPubSub) Subscribe(_ context.Context, topic string, _ ...options.PubSubSubscribeOption) (coreiface.PubSubSubscription, error) {
	p.mu.Lock()
	hold := p.hold
	if hold != nil {
		p.waiting++
	}
	p.mu.Unlock()
	if hold != nil {
		<-hold
	}
	p.mu.Lock()
	defer p.mu.Unlock()
	if p.failNext > 0 {
		p.failNext--
		return nil, fmt.Errorf("script: subscribe refused")
	}
	s := &scriptSub{ch: make(chan scriptMsg, 16)}
	p.subs[topic] = s
	if p.all == nil {
		p.all = map[string][]*scriptSub{}
	}
	p.all[topic] = append(p.all[topic], s)
	p.subscribed = append(p.subscribed, topic)
	return s, nil
}

type scriptAPI struct {
	coreiface.CoreAPI
	self peer.ID
	ps   *scriptPubSub
}

func (a *scriptAPI) PubSub() coreiface.PubSubAPI { return a.ps }
func (a *scriptAPI) Key() coreiface.KeyAPI       { return scriptKey{a.self} }
func (a *scriptAPI) Swarm() coreiface.SwarmAPI   { return scriptSwarm{} }

type scriptKey struct{ self peer.ID }

func (k scriptKey) Self(context.Context) (coreiface.Key, error) { return scriptSelf{k.self}, nil }
func (k scriptKey) Generate(context.Context, string, ...options.KeyGenerateOption) (coreiface.Key, error) {
	return nil, nil
}
func (k scriptKey) Rename(context.Context, string, string, ...options.KeyRenameOption) (coreiface.Key, bool, error) {
	return nil, false, nil
}
func (k scriptKey) List(context.Context) ([]coreiface.Key, error)         { return nil, nil }
func (k scriptKey) Remove(context.Context, string) (coreiface.Key, error) { return nil, nil }
func (k scriptKey) Sign(context.Context, string, []byte) (coreiface.Key, []byte, error) {
	return nil, nil, nil
}
func (k scriptKey) Verify(context.Context, string, []byte, []byte) (coreiface.Key, bool, error) {
	return nil, false, nil
}

type scriptSelf struct{ id peer.ID }

func (s scriptSelf) Name() string    { return "self" }
func (s scriptSelf) ID() peer.ID     { return s.id }
func (s scriptSelf) Path() (p pathT) { return }

type scriptSwarm struct{ coreiface.SwarmAPI }

func (scriptSwarm) Connect(context.Context, peer.AddrInfo) error { return nil }

// ---- pubsubcoreapi: membership snapshots ----

func orderedSubsets(ps []peer.ID) [][]peer.ID {
	out := [][]peer.ID{{}}
	var rec func(cur []peer.ID, used int)
	rec = func(cur []peer.ID, used int) {
		for i, p := range ps {
			if used&(1<<i) != 0 {
				continue
			}
			n := append(append([]peer.ID{}, cur...), p)
			out = append(out, n)
			rec(n, used|1<<i)
		}
	}
	rec(nil, 0)
	return out
}

func runMembershipSequence(seq [][]peer.ID, names map[peer.ID]string) (string, []explore.Violation) {
	self := sim.DeterministicPeerID("self")
	ps := newScriptPubSub()
	api := &scriptAPI{self: self, ps: ps}
	adapter := pubsubcoreapi.NewPubSub(api, self, time.Nanosecond, zap.NewNop(), nil)
	ctx, cancel := context.WithCancel(context.Background())
	defer func() { cancel(); _ = sim.Quiesce() }()
	topic, err := adapter.TopicSubscribe(ctx, "t")
	if err != nil {
		return "harness", nil
	}
	ch, err := topic.WatchPeers(ctx)
	if err != nil {
		return "harness", nil
	}
	var vs []explore.Violation
	prev := map[peer.ID]bool{}
	id := func(s []peer.ID) string {
		var l []string
		for _, p := range s {
			l = append(l, names[p])
		}
		return "[" + strings.Join(l, " ") + "]"
	}
	var desc []string
	for _, snap := range seq {
		desc = append(desc, id(snap))
	}
	for step, snap := range seq {
		select {
		case ps.snapshots <- snap:
		case <-time.After(10 * time.Second):
			return "harness: poll loop did not ask for peers", nil
		}
		// the loop is back in Peers() (blocked on the next snapshot) once it is quiescent
		for i := 0; i < 3; i++ {
			_ = sim.Quiesce()
			time.Sleep(50 * time.Microsecond)
		}
		_ = sim.Quiesce()
		var joins, leaves []string
	drain:
		for {
			select {
			case e := <-ch:
				switch ev := e.(type) {
				case *iface.EventPubSubJoin:
					joins = append(joins, names[ev.Peer])
				case *iface.EventPubSubLeave:
					leaves = append(leaves, names[ev.Peer])
				}
			default:
				break drain
			}
		}
		cur := map[peer.ID]bool{}
		var wantJ, wantL []string
		for _, p := range snap {
			cur[p] = true
			if !prev[p] {
				wantJ = append(wantJ, names[p])
			}
		}
		for p := range prev {
			if !cur[p] {
				wantL = append(wantL, names[p])
			}
		}
		sort.Strings(joins)
		sort.Strings(leaves)
		sort.Strings(wantJ)
		sort.Strings(wantL)
		if strings.Join(joins, ",") != strings.Join(wantJ, ",") {
			vs = append(vs, explore.Violation{Signature: "membership-joins-wrong", Detail: fmt.Sprintf("snapshots %v: at step %d joins reported %v, expected %v", desc, step, joins, wantJ)})
		}
		if strings.Join(leaves, ",") != strings.Join(wantL, ",") {
			vs = append(vs, explore.Violation{Signature: "membership-leaves-wrong", Detail: fmt.Sprintf("snapshots %v: at step %d leaves reported %v, expected %v", desc, step, leaves, wantL)})
		}
		got, _ := topic.Peers(ctx)
		gs, ws := id(got), id(snap)
		if gs != ws {
			vs = append(vs, explore.Violation{Signature: "membership-peers-not-last-snapshot", Detail: fmt.Sprintf("snapshots %v: Peers()=%s after step %d, expected %s", desc, gs, step, ws)})
		}
		prev = cur
	}
	return "ok", vs
}

// ---- message sequences (pubsubcoreapi.WatchMessages and oneonone monitor) ----

type msgSpec struct {
	from int // 0 self, 1 p1, 2 p2
	size int
}

func payloadOf(m msgSpec, idx int) []byte {
	b := bytes.Repeat([]byte{byte('a' + idx)}, m.size)
	return b
}

func msgSequences(maxLen int) [][]msgSpec {
	alpha := []msgSpec{}
	for f := 0; f < 3; f++ {
		for _, s := range []int{0, 1, 64 * 1024} {
			alpha = append(alpha, msgSpec{f, s})
		}
	}
	var out [][]msgSpec
	var rec func(cur []msgSpec)
	rec = func(cur []msgSpec) {
		if len(cur) > 0 {
			out = append(out, append([]msgSpec{}, cur...))
		}
		if len(cur) == maxLen {
			return
		}
		for _, a := range alpha {
			rec(append(cur, a))
		}
	}
	rec(nil)
	return out
}

func runTopicMessages(seq []msgSpec) (string, []explore.Violation) {
	self, p1, p2 := sim.DeterministicPeerID("self"), sim.DeterministicPeerID("p1"), sim.DeterministicPeerID("p2")
	ids := []peer.ID{self, p1, p2}
	ps := newScriptPubSub()
	api := &scriptAPI{self: self, ps: ps}
	adapter := pubsubcoreapi.NewPubSub(api, self, time.Hour, zap.NewNop(), nil)
	ctx, cancel := context.WithCancel(context.Background())
	defer func() { cancel(); _ = sim.Quiesce() }()
	topic, _ := adapter.TopicSubscribe(ctx, "t")
	ch, err := topic.WatchMessages(ctx)
	if err != nil {
		return "harness", nil
	}
	sub := ps.subs["t"]
	var want [][]byte
	for i, m := range seq {
		d := payloadOf(m, i)
		sub.ch <- scriptMsg{from: ids[m.from], data: d}
		if m.from != 0 {
			want = append(want, d)
		}
	}
	_ = sim.Quiesce()
	var got [][]byte
drain:
	for {
		select {
		case e := <-ch:
			got = append(got, e.Content)
		default:
			break drain
		}
	}
	return "ok", compareDelivered("topic", seq, got, want)
}

func compareDelivered(what string, seq []msgSpec, got, want [][]byte) []explore.Violation {
	desc := fmt.Sprint(seq)
	if len(got) != len(want) {
		return []explore.Violation{{Signature: what + "-messages-count-wrong", Detail: fmt.Sprintf("sequence %s (from,size): delivered %d payloads, expected %d (own messages skipped)", desc, len(got), len(want))}}
	}
	// exactly once and byte for byte; the statement does not promise an order, so compare as multisets
	used := make([]bool, len(want))
	for _, g := range got {
		found := false
		for i, w := range want {
			if !used[i] && bytes.Equal(g, w) {
				used[i], found = true, true
				break
			}
		}
		if !found {
			return []explore.Violation{{Signature: what + "-payload-altered-or-duplicated", Detail: fmt.Sprintf("sequence %s: a delivered payload of %d bytes matches no undelivered sent payload", desc, len(g))}}
		}
	}
	return nil
}

type recEmitter struct {
	mu   sync.Mutex
	evts []*iface.EventPubSubPayload
}

func (r *recEmitter) Emit(e *iface.EventPubSubPayload) error {
	r.mu.Lock()
	r.evts = append(r.evts, e)
	r.mu.Unlock()
	return nil
}
func (r *recEmitter) Close() error { return nil }

func runOneOnOneMessages(seq []msgSpec) (string, []explore.Violation) {
	self, p1, p2 := sim.DeterministicPeerID("self"), sim.DeterministicPeerID("p1"), sim.DeterministicPeerID("p2")
	ids := []peer.ID{self, p1, p2}
	ps := newScriptPubSub()
	ps.peersAlways = []peer.ID{p1}
	api := &scriptAPI{self: self, ps: ps}
	em := &recEmitter{}
	ctx, cancel := context.WithCancel(context.Background())
	defer cancel()
	ch, err := oneonone.NewChannelFactory(api)(ctx, em, nil)
	if err != nil {
		return "harness", nil
	}
	if err := ch.Connect(ctx, p1); err != nil { // includes the adapter's built-in one-second wait
		return "harness: connect " + err.Error(), nil
	}
	var sub *scriptSub
	ps.mu.Lock()
	for _, s := range ps.subs {
		sub = s
	}
	ps.mu.Unlock()
	var want [][]byte
	for i, m := range seq {
		d := payloadOf(m, i)
		sub.ch <- scriptMsg{from: ids[m.from], data: d}
		if m.from != 0 {
			want = append(want, d)
		}
	}
	deadline := time.Now().Add(5 * time.Second)
	for time.Now().Before(deadline) {
		em.mu.Lock()
		n := len(em.evts)
		em.mu.Unlock()
		if n >= len(want) && len(sub.ch) == 0 {
			break
		}
		time.Sleep(time.Millisecond)
	}
	time.Sleep(5 * time.Millisecond)
	em.mu.Lock()
	defer em.mu.Unlock()
	var got [][]byte
	var vs []explore.Violation
	for _, e := range em.evts {
		got = append(got, e.Payload)
		if e.Peer != p1 {
			vs = append(vs, explore.Violation{Signature: "oneonone-payload-attributed-to-wrong-peer", Detail: fmt.Sprintf("sequence %v", seq)})
		}
	}
	_ = ch.Close()
	return "ok", append(vs, compareDelivered("oneonone", seq, got, want)...)
}

func runChannelIDs() (string, []explore.Violation) {
	var pool []peer.ID
	for i := 0; i < 5; i++ {
		pool = append(pool, sim.DeterministicPeerID(fmt.Sprintf("pool%d", i)))
	}
	// peer ids of other key types print with another length and prefix ("Qm..." for hashed RSA keys, 46
	// characters, against 52 for the inlined Ed25519 keys above): two of those as well
	for i := 0; i < 2; i++ {
		if mh, err := multihash.Sum([]byte(fmt.Sprintf("verif-rsa-like-%d", i)), multihash.SHA2_256, -1); err == nil {
			pool = append(pool, peer.ID(mh))
		}
	}
	topicOf := map[[2]int]string{}
	var mu sync.Mutex
	var wg sync.WaitGroup
	for i := range pool {
		for j := range pool {
			if i == j {
				continue
			}
			i, j := i, j
			wg.Add(1)
			go func() {
				defer wg.Done()
				ps := newScriptPubSub()
				ps.peersAlways = []peer.ID{pool[j]}
				api := &scriptAPI{self: pool[i], ps: ps}
				ctx, cancel := context.WithCancel(context.Background())
				defer cancel()
				ch, err := oneonone.NewChannelFactory(api)(ctx, &recEmitter{}, nil)
				if err != nil {
					return
				}
				_ = ch.Connect(ctx, pool[j])
				_ = ch.Send(ctx, pool[j], []byte("x"))
				ps.mu.Lock()
				t := strings.Join(ps.subscribed, "|")
				if len(ps.published) != 1 || ps.published[0] != t {
					t = t + " (published on " + strings.Join(ps.published, "|") + ")"
				}
				ps.mu.Unlock()
				mu.Lock()
				topicOf[[2]int{i, j}] = t
				mu.Unlock()
				_ = ch.Close()
			}()
		}
	}
	wg.Wait()
	var vs []explore.Violation
	seen := map[string][2]int{}
	for i := range pool {
		for j := range pool {
			if i >= j {
				continue
			}
			a, b := topicOf[[2]int{i, j}], topicOf[[2]int{j, i}]
			if a == "" || a != b {
				vs = append(vs, explore.Violation{Signature: "oneonone-channel-name-not-symmetric", Detail: fmt.Sprintf("pair (%d,%d): %q vs %q", i, j, a, b)})
			}
			if strings.Contains(a, "published on") {
				vs = append(vs, explore.Violation{Signature: "oneonone-send-uses-another-channel", Detail: a})
			}
			if prev, ok := seen[a]; ok {
				vs = append(vs, explore.Violation{Signature: "oneonone-channel-name-collision", Detail: fmt.Sprintf("pairs %v and (%d,%d) share %q", prev, i, j, a)})
			}
			seen[a] = [2]int{i, j}
		}
	}
	return fmt.Sprintf("pairs=%d", len(seen)), vs
}

// runOneOnOneConcurrentConnect: two overlapping Connect calls for the same peer (as when two stores of one
// instance see the peer join at the same moment) must leave one subscription, so that a payload sent
// afterwards is delivered once.
func runOneOnOneConcurrentConnect() (string, []explore.Violation) {
	self, p1 := sim.DeterministicPeerID("self"), sim.DeterministicPeerID("p1")
	ps := newScriptPubSub()
	ps.peersAlways = []peer.ID{p1}
	ps.hold = make(chan struct{})
	ps.held = ps.hold
	api := &scriptAPI{self: self, ps: ps}
	em := &recEmitter{}
	ctx, cancel := context.WithCancel(context.Background())
	defer cancel()
	ch, err := oneonone.NewChannelFactory(api)(ctx, em, nil)
	if err != nil {
		return "harness", nil
	}
	var wg sync.WaitGroup
	for i := 0; i < 2; i++ {
		wg.Add(1)
		go func() { defer wg.Done(); _ = ch.Connect(ctx, p1) }()
	}
	_ = sim.Quiesce() // both callers are now either inside Subscribe or waiting for the channel's lock
	ps.mu.Lock()
	inside := ps.waiting
	ps.hold = nil
	ps.mu.Unlock()
	close(ps.holdChan())
	wg.Wait()
	// a real pubsub hands a topic message to every subscription of that topic
	ps.mu.Lock()
	nsubs := 0
	for _, l := range ps.all {
		for _, s := range l {
			s.ch <- scriptMsg{from: p1, data: []byte("payload")}
			nsubs++
		}
	}
	ps.mu.Unlock()
	time.Sleep(20 * time.Millisecond)
	_ = sim.Quiesce()
	em.mu.Lock()
	n := len(em.evts)
	em.mu.Unlock()
	_ = ch.Close()
	if n != 1 {
		return fmt.Sprintf("deliveries=%d", n), []explore.Violation{{Signature: "oneonone-concurrent-connect-duplicates-delivery",
			Detail: fmt.Sprintf("two overlapping Connect calls (%d inside Subscribe at the same time) left %d subscriptions; one payload was delivered %d times", inside, nsubs, n)}}
	}
	return fmt.Sprintf("deliveries=1 subscriptions=%d", nsubs), nil
}

// ---- directchannel over the in-memory host ----

func runDirectChannelSizes() (string, []explore.Violation) {
	a, b := sim.DeterministicPeerID("dcA"), sim.DeterministicPeerID("dcB")
	ha, hb := sim.NewFakeHost(a), sim.NewFakeHost(b)
	ha.Peers[b], hb.Peers[a] = hb, ha
	emB := &recEmitter{}
	chA, _ := directchannel.InitDirectChannelFactory(zap.NewNop(), ha)(bg, &recEmitter{}, nil)
	_, _ = directchannel.InitDirectChannelFactory(zap.NewNop(), hb)(bg, emB, nil)
	const max = directchannel.DelimitedReadMaxSize
	sizes := []int{0, 1, 127, 128, 16383, 16384, 1 << 20, max - 1, max, max + 1, 2}
	var vs []explore.Violation
	for k, sz := range sizes {
		payload := bytes.Repeat([]byte{byte('a' + k)}, sz)
		before := len(emB.evts)
		_ = chA.Send(bg, b, payload)
		_ = sim.Quiesce()
		emB.mu.Lock()
		got := emB.evts[before:]
		emB.mu.Unlock()
		if sz > max {
			if len(got) != 0 {
				vs = append(vs, explore.Violation{Signature: "directchannel-oversized-frame-delivered", Detail: fmt.Sprintf("size %d", sz)})
			}
			continue
		}
		if len(got) != 1 {
			vs = append(vs, explore.Violation{Signature: "directchannel-delivery-count-wrong", Detail: fmt.Sprintf("size %d delivered %d times (after an oversized frame: %v)", sz, len(got), k == len(sizes)-1)})
			continue
		}
		if !bytes.Equal(got[0].Payload, payload) {
			vs = append(vs, explore.Violation{Signature: "directchannel-payload-altered", Detail: fmt.Sprintf("size %d: received %d bytes", sz, len(got[0].Payload))})
		}
		if got[0].Peer != a {
			vs = append(vs, explore.Violation{Signature: "directchannel-wrong-sender", Detail: fmt.Sprintf("size %d", sz)})
		}
	}
	return fmt.Sprintf("sizes=%d", len(sizes)), vs
}

// runDirectChannelDeclaredLengths: raw frames whose declared length is beyond the limit (up to the largest
// 64-bit value) reach the receiving adapter; each is refused (nothing delivered, no crash) and a valid payload
// sent afterwards still arrives once, intact.
func runDirectChannelDeclaredLengths() (string, []explore.Violation) {
	var vs []explore.Violation
	a, b := sim.DeterministicPeerID("dcA"), sim.DeterministicPeerID("dcB")
	ha, hb := sim.NewFakeHost(a), sim.NewFakeHost(b)
	ha.Peers[b] = hb
	emB := &recEmitter{}
	chA, _ := directchannel.InitDirectChannelFactory(zap.NewNop(), ha)(bg, &recEmitter{}, nil)
	_, _ = directchannel.InitDirectChannelFactory(zap.NewNop(), hb)(bg, emB, nil)
	const max = directchannel.DelimitedReadMaxSize
	lengths := []uint64{max + 1, 1 << 32, 1<<63 - 1, 1 << 63, 1<<63 + 12345, 1<<64 - 1}
	for k, l := range lengths {
		buf := make([]byte, binary.MaxVarintLen64)
		n := binary.PutUvarint(buf, l)
		raw := append(buf[:n], []byte("tail")...)
		if h := hb.Handler(directchannel.PROTOCOL); h != nil {
			go h(sim.NewInStream(a, raw))
		}
		_ = sim.Quiesce()
		payload := []byte(fmt.Sprintf("after-%d", k))
		_ = chA.Send(bg, b, payload)
		_ = sim.Quiesce()
		emB.mu.Lock()
		got := append([]*iface.EventPubSubPayload{}, emB.evts...)
		emB.evts = nil
		emB.mu.Unlock()
		if len(got) != 1 || !bytes.Equal(got[0].Payload, payload) {
			vs = append(vs, explore.Violation{Signature: "directchannel-oversized-frame-disturbs-traffic", Detail: fmt.Sprintf("after a frame declaring %d bytes, the next payload was delivered %d times", l, len(got))})
		}
	}
	return fmt.Sprintf("declared lengths=%d", len(lengths)), vs
}

func runDirectChannelInterleavings() (string, []explore.Violation) {
	orders := [][]string{{"a1", "a2", "b1", "b2"}, {"a1", "b1", "a2", "b2"}, {"a1", "b1", "b2", "a2"}, {"b1", "a1", "a2", "b2"}, {"b1", "a1", "b2", "a2"}, {"b1", "b2", "a1", "a2"}}
	var vs []explore.Violation
	for _, ord := range orders {
		a, b, c := sim.DeterministicPeerID("dcA"), sim.DeterministicPeerID("dcB"), sim.DeterministicPeerID("dcC")
		ha, hb, hc := sim.NewFakeHost(a), sim.NewFakeHost(b), sim.NewFakeHost(c)
		ha.Peers[c], hb.Peers[c] = hc, hc
		emC := &recEmitter{}
		chA, _ := directchannel.InitDirectChannelFactory(zap.NewNop(), ha)(bg, &recEmitter{}, nil)
		chB, _ := directchannel.InitDirectChannelFactory(zap.NewNop(), hb)(bg, &recEmitter{}, nil)
		_, _ = directchannel.InitDirectChannelFactory(zap.NewNop(), hc)(bg, emC, nil)
		for _, f := range ord {
			if f[0] == 'a' {
				_ = chA.Send(bg, c, []byte(f))
			} else {
				_ = chB.Send(bg, c, []byte(f))
			}
			_ = sim.Quiesce()
		}
		emC.mu.Lock()
		var got []string
		for _, e := range emC.evts {
			who := "?"
			if e.Peer == a {
				who = "a"
			} else if e.Peer == b {
				who = "b"
			}
			got = append(got, string(e.Payload)+"@"+who)
		}
		emC.mu.Unlock()
		var want []string
		for _, f := range ord {
			want = append(want, f+"@"+f[:1])
		}
		sort.Strings(got)
		sort.Strings(want)
		if strings.Join(got, ",") != strings.Join(want, ",") {
			vs = append(vs, explore.Violation{Signature: "directchannel-interleaved-senders-mixed-up", Detail: fmt.Sprintf("sent %v received %v", want, got)})
		}
	}
	return fmt.Sprintf("orders=%d", len(orders)), vs
}

// runDirectChannelConcurrentSends: two goroutines send through ONE channel object at the same time (payload
// lengths whose varint prefixes differ); every Write on the outgoing streams is a schedule point and all
// interleavings of the four writes are run. Each receiver must get exactly the payload sent to it.
func runDirectChannelConcurrentSends() (string, []explore.Violation) {
	var vs []explore.Violation
	orders := [][]string{{"s1", "s1", "s2", "s2"}, {"s1", "s2", "s1", "s2"}, {"s1", "s2", "s2", "s1"}, {"s2", "s1", "s1", "s2"}, {"s2", "s1", "s2", "s1"}, {"s2", "s2", "s1", "s1"}}
	for _, dest := range []string{"two receivers", "one receiver"} {
		for _, ord := range orders {
			a, c, d := sim.DeterministicPeerID("dcA"), sim.DeterministicPeerID("dcC"), sim.DeterministicPeerID("dcD")
			ha, hc, hd := sim.NewFakeHost(a), sim.NewFakeHost(c), sim.NewFakeHost(d)
			ha.Peers[c], ha.Peers[d] = hc, hd
			emC, emD := &recEmitter{}, &recEmitter{}
			chA, _ := directchannel.InitDirectChannelFactory(zap.NewNop(), ha)(bg, &recEmitter{}, nil)
			_, _ = directchannel.InitDirectChannelFactory(zap.NewNop(), hc)(bg, emC, nil)
			_, _ = directchannel.InitDirectChannelFactory(zap.NewNop(), hd)(bg, emD, nil)
			gates := sim.NewGates()
			gates.Enable(func(kind, peer, key, caller string) bool { return kind == "stream.write" })
			ha.BeforeWrite = func() { _, _ = gates.Pass(bg, "stream.write", sim.GoroutineTag(), "") }
			long, short := bytes.Repeat([]byte("L"), 300), []byte("SSSSS")
			to2 := d
			if dest == "one receiver" {
				to2 = c
			}
			done := make(chan struct{}, 2)
			go func() {
				sim.TagGoroutine("s1")
				defer sim.UntagGoroutine()
				_ = chA.Send(bg, c, long)
				done <- struct{}{}
			}()
			_ = sim.Quiesce()
			go func() {
				sim.TagGoroutine("s2")
				defer sim.UntagGoroutine()
				_ = chA.Send(bg, to2, short)
				done <- struct{}{}
			}()
			_ = sim.Quiesce()
			ok := true
			for _, who := range ord {
				found := ""
				for _, l := range gates.Parked() {
					if strings.HasPrefix(l, "stream.write|"+who+"|") {
						found = l
					}
				}
				if found == "" {
					ok = false // this order is not schedulable (a sender finished with fewer writes): not judged
					break
				}
				_ = gates.Release(found, sim.AnswerOK)
				_ = sim.Quiesce()
			}
			gates.Enable(nil)
			gates.ReleaseAll()
			_ = sim.Quiesce()
			if !ok || len(done) != 2 {
				continue
			}
			got := map[string][]string{}
			for name, em := range map[string]*recEmitter{"c": emC, "d": emD} {
				em.mu.Lock()
				for _, e := range em.evts {
					got[name] = append(got[name], fmt.Sprintf("%d bytes %q..", len(e.Payload), string(e.Payload[:min(3, len(e.Payload))])))
				}
				em.mu.Unlock()
				sort.Strings(got[name])
			}
			want := map[string][]string{"c": {`300 bytes "LLL"..`}, "d": {`5 bytes "SSS"..`}}
			if dest == "one receiver" {
				want = map[string][]string{"c": {`300 bytes "LLL"..`, `5 bytes "SSS"..`}}
			}
			for _, name := range []string{"c", "d"} {
				if strings.Join(got[name], ",") != strings.Join(want[name], ",") {
					vs = append(vs, explore.Violation{Signature: "directchannel-concurrent-sends-corrupt-frames",
						Detail: fmt.Sprintf("%s, write order %v: receiver %s got %v, expected %v", dest, ord, name, got[name], want[name])})
				}
			}
		}
	}
	return "orders=12", vs
}

func init() {
	explore.Register(&explore.CheckDef{
		ID: "C20", Level: "exploration",
		Rule: "pubsubcoreapi over a scripted PubSub API whose poll loop is stepped one membership snapshot at a time: every sequence of <= 3 (quick) / <= 4 (thorough) snapshots over 3 remote peers, each snapshot a duplicate-free set in every list order (16 ordered lists): joins and leaves reported must be exactly the set differences of consecutive snapshots, once each, and Peers() the last snapshot; every message sequence of length <= 3 over sender {self, p1, p2} x payload {empty, 1 byte, 64 KiB} must be delivered as exactly the multiset of its non-self payloads, byte-identical (order is not part of the statement and is not judged) (topic adapter and one-on-one channel monitor, the latter attributed to the channel's remote peer). oneonone: channel names symmetric, distinct and used for sending, for all 42 ordered pairs of 7 peer ids (two key types, whose printed ids differ in length); two overlapping Connect calls for one peer (the subscription call held open) must leave one subscription and deliver a later payload once. directchannel over an in-memory host: 10 payload sizes from 0 to the frame limit +1 (exact bytes, exact sender, once; oversize refused and the next frame still delivered; raw frames declaring 4 MiB+1 up to 2^64-1 bytes refused likewise) and all 6 interleavings of two senders x two frames; two concurrent Sends through one channel object (prefixes of different length, one or two receivers) with every stream write a schedule point, all 6 write orders. pubsubraw over three real in-memory libp2p hosts with gossipsub: every message sequence of length <= 2 over 3 senders x 2 sizes, receipt-based waiting (bounded input enumeration without schedule control; a delivery the library does not make in time ends the case as inconclusive, not as a violation). Non-trivial = sequences in which membership changes / a self-sent message occurs.",
		Units: func(tier string) []explore.Unit {
			u := explore.ChunkUnits("membership-"+tier, 16)
			u = append(u, explore.ChunkUnits("topicmsgs", 4)...)
			u = append(u, explore.ChunkUnits("oneonone", 8)...)
			u = append(u, explore.ChunkUnits("misc", 1)...)
			return u
		},
		Budget: func(tier string) float64 { return 600 },
		RunUnit: func(c *explore.Ctx) {
			prefix, i, n := explore.ParseChunk(c.Spec.Unit.Arg)
			var cases []explore.Case
			switch {
			case strings.HasPrefix(prefix, "membership-"):
				maxLen := 3
				if strings.HasSuffix(prefix, "thorough") {
					maxLen = 4
				}
				names := map[peer.ID]string{}
				var remote []peer.ID
				for _, nme := range []string{"p1", "p2", "p3"} {
					id := sim.DeterministicPeerID(nme)
					names[id] = nme
					remote = append(remote, id)
				}
				lists := orderedSubsets(remote)
				var rec func(cur [][]peer.ID)
				rec = func(cur [][]peer.ID) {
					if len(cur) > 0 {
						seq := append([][]peer.ID{}, cur...)
						var d []string
						for _, s := range seq {
							var l []string
							for _, p := range s {
								l = append(l, names[p])
							}
							d = append(d, "["+strings.Join(l, " ")+"]")
						}
						cases = append(cases, explore.Case{ID: "membership " + strings.Join(d, ">"), Nontrivial: len(seq) > 1,
							Run: func() (string, []explore.Violation) { return runMembershipSequence(seq, names) }})
					}
					if len(cur) == maxLen {
						return
					}
					for _, l := range lists {
						rec(append(cur, l))
					}
				}
				rec(nil)
			case prefix == "topicmsgs":
				for _, s := range msgSequences(3) {
					s := s
					self := false
					for _, m := range s {
						self = self || m.from == 0
					}
					cases = append(cases, explore.Case{ID: fmt.Sprintf("topic messages %v", s), Nontrivial: self, Run: func() (string, []explore.Violation) { return runTopicMessages(s) }})
				}
			case prefix == "oneonone":
				for _, s := range msgSequences(2) {
					s := s
					self := false
					for _, m := range s {
						self = self || m.from == 0
					}
					cases = append(cases, explore.Case{ID: fmt.Sprintf("oneonone messages %v", s), Nontrivial: self, Run: func() (string, []explore.Violation) { return runOneOnOneMessages(s) }})
				}
			case prefix == "misc":
				cases = append(cases, explore.Case{ID: "oneonone channel names", Nontrivial: true, Run: runChannelIDs})
				cases = append(cases, explore.Case{ID: "oneonone concurrent connect", Nontrivial: true, Run: runOneOnOneConcurrentConnect})
				cases = append(cases, explore.Case{ID: "directchannel sizes", Nontrivial: true, Run: runDirectChannelSizes})
				cases = append(cases, explore.Case{ID: "directchannel interleavings", Nontrivial: true, Run: runDirectChannelInterleavings})
				cases = append(cases, explore.Case{ID: "directchannel declared lengths", Nontrivial: true, Run: runDirectChannelDeclaredLengths})
				cases = append(cases, explore.Case{ID: "directchannel concurrent sends through one channel", Nontrivial: true, Run: runDirectChannelConcurrentSends})
				cases = append(cases, explore.Case{ID: "pubsubraw over in-memory libp2p hosts", Nontrivial: true, Run: runPubSubRaw})
			}
			explore.RunCases(c, "C20", cases, i, n)
		},
		Assumptions: []string{
			"the adapters are driven through scripted doubles of the IPFS PubSub API and of the libp2p host/stream; the poll loop is stepped by making each Peers() call wait for the next scripted snapshot",
			"oneonone.Connect contains a fixed one-second wait; message sequences for it are therefore limited to length 2 and waited for by receipt, not by goroutine-status quiescence",
			"pubsubraw runs over real go-libp2p-pubsub between in-memory hosts: its internal timers are not owned, so that sub-check enumerates inputs only and waits by receipt",
		},
	})
}
