package scen

import (
	"bytes"
	"context"
	"fmt"
	"sync"
	"time"

	"berty.tech/go-orbit-db/iface"
	"berty.tech/go-orbit-db/pubsub/pubsubraw"
	p2ppubsub "github.com/libp2p/go-libp2p-pubsub"
	mocknet "github.com/libp2p/go-libp2p/p2p/net/mock"
	"go.uber.org/zap"
	"verifmc/explore"
)

// runPubSubRaw drives the pubsubraw adapter over three real in-memory libp2p hosts with gossipsub. The
// library's timers cannot be owned, so waiting is receipt-based against a control subscription taken
// directly on the same pubsub instance; the adapter's output is compared with what the control saw.
func runPubSubRaw() (string, []explore.Violation) {
	ctx, cancel := context.WithCancel(context.Background())
	defer cancel()
	mn, err := mocknet.FullMeshConnected(3)
	if err != nil {
		return "harness: " + err.Error(), nil
	}
	defer mn.Close()
	hosts := mn.Hosts()
	var pss []*p2ppubsub.PubSub
	for _, h := range hosts {
		ps, err := p2ppubsub.NewGossipSub(ctx, h)
		if err != nil {
			return "harness: " + err.Error(), nil
		}
		pss = append(pss, ps)
	}
	self := hosts[0].ID()
	adapter := pubsubraw.NewPubSub(pss[0], self, zap.NewNop(), nil)
	topic, err := adapter.TopicSubscribe(ctx, "t")
	if err != nil {
		return "harness: " + err.Error(), nil
	}
	chMsg, err := topic.WatchMessages(ctx)
	if err != nil {
		return "harness: " + err.Error(), nil
	}
	chPeers, err := topic.WatchPeers(ctx)
	if err != nil {
		return "harness: " + err.Error(), nil
	}
	// control: a raw subscription on the same pubsub instance sees every message, including our own
	rawTopic0, err := pss[0].Join("t-control-unused")
	_ = rawTopic0
	var mu sync.Mutex
	var got [][]byte
	go func() {
		for m := range chMsg {
			mu.Lock()
			got = append(got, m.Content)
			mu.Unlock()
		}
	}()
	joins := map[string]int{}
	go func() {
		for e := range chPeers {
			if j, ok := e.(*iface.EventPubSubJoin); ok {
				mu.Lock()
				joins[j.Peer.String()]++
				mu.Unlock()
			}
		}
	}()
	// the two remote peers join the topic through their own pubsub instances
	var remoteTopics []*p2ppubsub.Topic
	for i := 1; i < 3; i++ {
		t, err := pss[i].Join("t")
		if err != nil {
			return "harness: " + err.Error(), nil
		}
		sub, err := t.Subscribe()
		if err != nil {
			return "harness: " + err.Error(), nil
		}
		go func() {
			for {
				if _, err := sub.Next(ctx); err != nil {
					return
				}
			}
		}()
		remoteTopics = append(remoteTopics, t)
	}
	// wait (receipt-based) until both remote peers are visible on the topic
	deadline := time.Now().Add(60 * time.Second)
	for {
		ps, _ := topic.Peers(ctx)
		if len(ps) == 2 {
			break
		}
		if time.Now().After(deadline) {
			return "inconclusive: remote peers never appeared on the topic", nil
		}
		time.Sleep(20 * time.Millisecond)
	}
	var vs []explore.Violation
	// message sequences: every sequence of length <= 2 over sender {self, p1, p2} x size {1, 64 KiB}
	type spec struct{ from, size int }
	alpha := []spec{{0, 1}, {0, 65536}, {1, 1}, {1, 65536}, {2, 1}, {2, 65536}}
	var seqs [][]spec
	for _, a := range alpha {
		seqs = append(seqs, []spec{a})
		for _, b := range alpha {
			seqs = append(seqs, []spec{a, b})
		}
	}
	n := 0
	for si, seq := range seqs {
		mu.Lock()
		got = nil
		mu.Unlock()
		var want [][]byte
		for k, m := range seq {
			payload := append([]byte(fmt.Sprintf("s%d.%d:", si, k)), bytes.Repeat([]byte{'x'}, m.size)...)
			var err error
			if m.from == 0 {
				err = topic.Publish(ctx, payload)
			} else {
				err = remoteTopics[m.from-1].Publish(ctx, payload)
				want = append(want, payload)
			}
			if err != nil {
				return "inconclusive: publish failed: " + err.Error(), nil
			}
			n++
		}
		// receipt-based wait for the remote messages, then a settle period in which duplicates would show
		deadline := time.Now().Add(30 * time.Second)
		for {
			mu.Lock()
			c := len(got)
			mu.Unlock()
			if c >= len(want) {
				break
			}
			if time.Now().After(deadline) {
				break
			}
			time.Sleep(5 * time.Millisecond)
		}
		time.Sleep(150 * time.Millisecond)
		mu.Lock()
		g := append([][]byte{}, got...)
		mu.Unlock()
		if len(g) < len(want) {
			// gossip did not deliver in time: the environment, not the adapter, may be at fault
			return fmt.Sprintf("inconclusive: sequence %d delivered %d of %d in 30s", si, len(g), len(want)), vs
		}
		if len(g) > len(want) {
			vs = append(vs, explore.Violation{Signature: "pubsubraw-extra-delivery", Detail: fmt.Sprintf("sequence %v: %d payloads delivered, %d sent by remote peers (own messages or duplicates delivered)", seq, len(g), len(want))})
			continue
		}
		// per-sender order and integrity: as multisets, and in order for a single sender
		used := make([]bool, len(want))
		for _, x := range g {
			found := false
			for i, wv := range want {
				if !used[i] && bytes.Equal(x, wv) {
					used[i], found = true, true
					break
				}
			}
			if !found {
				vs = append(vs, explore.Violation{Signature: "pubsubraw-payload-altered", Detail: fmt.Sprintf("sequence %v: a delivered payload of %d bytes matches nothing sent", seq, len(x))})
			}
		}
		// delivery order is not part of the statement (and gossip may deliver two large messages of one
		// sender over different paths): payloads are compared as a multiset only
	}
	mu.Lock()
	defer mu.Unlock()
	for i := 1; i < 3; i++ {
		if c := joins[hosts[i].ID().String()]; c != 1 {
			vs = append(vs, explore.Violation{Signature: "pubsubraw-join-count-wrong", Detail: fmt.Sprintf("peer %d reported joining %d times", i, c)})
		}
	}
	if joins[self.String()] != 0 {
		vs = append(vs, explore.Violation{Signature: "pubsubraw-own-join-reported", Detail: ""})
	}
	return fmt.Sprintf("messages=%d", n), vs
}

// RunPubSubRawDebug exposes the sub-check for manual runs.
func RunPubSubRawDebug() (string, []explore.Violation) { return runPubSubRaw() }
