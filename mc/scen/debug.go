package scen

import (
	"fmt"

	"verifmc/explore"
)

// DebugRun replays a history in the C19 observer world and returns all violations seen.
func DebugRun(which string, hist []string) []explore.Violation {
	w, err := NewWriters("eventlog", 2, LogAlphabet("one"))
	if err != nil {
		panic(err)
	}
	w.Mem = NewMemory()
	w.Routes, w.Reload, w.Snapshot = []string{"sync", "direct"}, true, true
	if err := w.AddObserver(); err != nil {
		panic(err)
	}
	switch which {
	case "C19":
		installStatusMonitor(w, "C19")
	}
	var out []explore.Violation
	for i, a := range hist {
		if err := w.Do(a); err != nil {
			panic(err)
		}
		for _, v := range w.Check(hist[:i+1]) {
			v.History = hist[:i+1]
			out = append(out, v)
		}
	}
	w.Close()
	return out
}

// DebugNet replays a history in the C02 network world (2 writers) and prints what is enabled after each step.
func DebugNet(hist []string) {
	w, err := NewNetWorld(C02Arg{DFSArg: DFSArg{Kind: "eventlog", Writers: 2, Depth: 9}, Writes: 4, Faults: 2, Cuts: 1, Restarts: 1})
	if err != nil {
		panic(err)
	}
	fmt.Println("enabled:", w.Enabled())
	for _, a := range hist {
		if err := w.Do(a); err != nil {
			fmt.Println("ERR", a, err)
			return
		}
		fmt.Println("after", a, "sets:", w.SetKey(0), "|", w.SetKey(1))
		fmt.Println("   enabled:", w.Enabled())
	}
	vs := w.FinalPhase()
	fmt.Println("after final phase sets:", w.SetKey(0), "|", w.SetKey(1))
	for _, v := range vs {
		fmt.Println("FINAL:", v.Signature, v.Detail)
	}
	w.Close()
}

// DebugFetchGated walks the C09 gated-fetch world greedily (always the first enabled action) and prints it.
func DebugFetchGated(pick func(en []string) int) {
	w, err := NewMultiDBOpts([]string{"eventlog", "keyvalue"}, []string{"both", "both"}, false, false)
	if err != nil {
		panic(err)
	}
	if err := w.PrepareFetchGated(2); err != nil {
		panic(err)
	}
	for step := 0; step < 20; step++ {
		en := w.Enabled()
		fmt.Println("enabled:", en)
		if len(en) == 0 {
			break
		}
		a := en[pick(en)]
		if err := w.Do(a); err != nil {
			fmt.Println("ERR", err)
			break
		}
		fmt.Println("did", a, "viol:", len(w.Check(nil)), "key:", w.Key())
	}
	w.Close()
}

// DebugFetchGatedDFS runs the gated-fetch search in-process and prints every history it extends.
func DebugFetchGatedDFS() {
	st := explore.NewStats()
	d := &explore.DFS{Scenario: "dbg", Space: "dbg",
		New: func() (explore.World, error) {
			w, err := NewMultiDBOpts([]string{"eventlog", "keyvalue"}, []string{"both", "both"}, false, false)
			if err == nil {
				err = w.PrepareFetchGated(2)
			}
			return w, err
		},
		MaxDepth: 9, ShardDepth: 1, Shards: 1, Shard: 0, Stats: st,
		Journal: func(h []string) { fmt.Println("J", len(h), explore.HistKey(h)) },
	}
	d.Run()
	fmt.Println("violations", len(st.Violations), "errs", st.HarnessErrs, "pruned", st.Pruned, "exec", st.Executions)
	for _, v := range st.Violations {
		fmt.Println(v.Signature, v.History)
	}
}
