package scen

import "verifmc/explore"

// DebugRun replays a history in the C19 observer world and returns all violations seen.
func DebugRun(which string, hist []string) []explore.Violation {
	w, err := NewWriters("eventlog", 2, LogAlphabet("one"))
	if err != nil {
		panic(err)
	}
	w.Mem = NewMemory()
	w.Routes, w.Reload, w.Snapshot = []string{"sync", "direct"}, true, true
	if err := w.AddObserver(); err != nil {
		panic(err)
	}
	switch which {
	case "C19":
		installStatusMonitor(w, "C19")
	}
	var out []explore.Violation
	for i, a := range hist {
		if err := w.Do(a); err != nil {
			panic(err)
		}
		for _, v := range w.Check(hist[:i+1]) {
			v.History = hist[:i+1]
			out = append(out, v)
		}
	}
	w.Close()
	return out
}
