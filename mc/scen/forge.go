package scen

import (
	"context"
	"fmt"

	"berty.tech/go-ipfs-log/entry"
	idp "berty.tech/go-ipfs-log/identityprovider"
	logio "berty.tech/go-ipfs-log/io"
	cid "github.com/ipfs/go-cid"
	coreiface "github.com/ipfs/kubo/core/coreiface"
)

// ForgeSpec describes one hand-built entry.
type ForgeSpec struct {
	LogID   string
	Payload []byte
	Next    []cid.Cid
	Refs    []cid.Cid
	Time    int
	ClockID []byte // defaults to the signer's public key
	// Signer signs the entry (its key goes into the key field unless Key is set).
	Signer *idp.Identity
	// Block is the identity block stored in the entry (defaults to the signer's).
	Block *idp.Identity
	// Key overrides the key field.
	Key []byte
}

// Forge builds, signs and stores (on api's peer) an entry exactly as the wire format would carry it.
func Forge(api coreiface.CoreAPI, s ForgeSpec) (*entry.Entry, error) {
	ctx := context.Background()
	clockID := s.ClockID
	if clockID == nil {
		clockID = s.Signer.PublicKey
	}
	next, refs := s.Next, s.Refs
	if next == nil {
		next = []cid.Cid{}
	}
	if refs == nil {
		refs = []cid.Cid{}
	}
	e, err := entry.CreateEntryWithIO(ctx, api, s.Signer, &entry.Entry{
		LogID: s.LogID, Payload: s.Payload, Next: next, Refs: refs,
		Clock: entry.NewLamportClock(clockID, s.Time),
	}, nil, logio.CBOR())
	if err != nil {
		return nil, fmt.Errorf("forge: %w", err)
	}
	out := e.(*entry.Entry)
	changed := false
	if s.Block != nil {
		out.Identity = s.Block.Filtered()
		changed = true
	}
	if s.Key != nil {
		out.Key = s.Key
		changed = true
	}
	if changed {
		if err := Rehash(api, out); err != nil {
			return nil, err
		}
	}
	return out, nil
}

// Rehash stores the entry's current content on api's peer and sets its hash to the content address.
func Rehash(api coreiface.CoreAPI, e *entry.Entry) error {
	h, err := entry.ToMultihashWithIO(context.Background(), e, api, nil, logio.CBOR())
	if err != nil {
		return fmt.Errorf("rehash: %w", err)
	}
	e.Hash = h
	return nil
}

// CopyIdentity returns a deep copy of an identity block (without provider).
func CopyIdentity(i *idp.Identity) *idp.Identity {
	c := &idp.Identity{ID: i.ID, PublicKey: append([]byte{}, i.PublicKey...), Type: i.Type}
	if i.Signatures != nil {
		c.Signatures = &idp.IdentitySignature{ID: append([]byte{}, i.Signatures.ID...), PublicKey: append([]byte{}, i.Signatures.PublicKey...)}
	}
	return c
}
