package scen

import (
	"encoding/json"
	"fmt"
	"strings"

	"verifmc/explore"
	"verifmc/sim"
)

// GatedMerge: replica 0 of a writer world receives the heads of the other writers while every block fetch
// of its replicator is gated, may write locally while fetches are in flight, and may be announced the
// same heads twice (duplication while in flight). All release orders are explored.
type GatedMerge struct {
	*Writers
	arg      GMArg
	announce []int // replicas still to announce to replica 0
	writes   int
	dups     int
}

type GMArg struct {
	Kind   string
	Shape  string // own0-chain3 | own2-chain3 | own2-fork | own1-chain2x2
	Writes int    // local writes allowed while merging
	Dups   int    // duplicate announcements allowed
	Bound  int
	Shards int
	Shard  int
}

func (a GMArg) Name() string {
	return fmt.Sprintf("gatedmerge/%s/%s/w%d/dup%d/dev%d/shard%d.%d", a.Kind, a.Shape, a.Writes, a.Dups, a.Bound, a.Shard, a.Shards)
}

func NewGatedMerge(a GMArg, mem *Memory) (*GatedMerge, error) {
	n := 2
	if a.Shape == "own2-fork" || a.Shape == "own1-chain2x2" {
		n = 3
	}
	alpha := "one"
	if a.Kind == "keyvalue" {
		alpha = "twokeys"
	}
	w, err := NewWriters(a.Kind, n, alphabetFor(a.Kind, alpha))
	if err != nil {
		return nil, err
	}
	w.Mem = mem
	g := &GatedMerge{Writers: w, arg: a, writes: a.Writes, dups: a.Dups}
	op := w.Ops[0].Name
	do := func(acts ...string) error {
		for _, x := range acts {
			if err := w.Do(x); err != nil {
				return err
			}
		}
		return nil
	}
	w0, w1, w2 := "w0:"+op, "w1:"+op, "w2:"+op
	if len(w.Ops) > 1 {
		w1 = "w1:" + w.Ops[1].Name // a different key on the other writer
	}
	switch a.Shape {
	case "own0-chain3":
		err = do(w1, w1, w1)
		g.announce = []int{1}
	case "own2-chain3":
		err = do(w0, w0, w1, w1, w1)
		g.announce = []int{1}
	case "own2-fork":
		err = do(w0, w0, w1, w1, w2, w2)
		g.announce = []int{1, 2}
	case "own1-chain2x2":
		err = do(w0, w1, w1, w2, "m21", w2)
		g.announce = []int{1, 2}
	default:
		err = fmt.Errorf("unknown shape %q", a.Shape)
	}
	if err != nil {
		return nil, err
	}
	w.Net.Gates.Enable(func(kind, peer, key, caller string) bool { return kind == "dag.get" && peer == "W0" })
	return g, nil
}

func (g *GatedMerge) pretty(l string) string {
	for id, e := range g.universe() {
		l = strings.ReplaceAll(l, e.GetHash().String(), id)
	}
	return l
}

func (g *GatedMerge) Enabled() []string {
	var out []string
	parked := g.Net.Gates.Parked()
	for _, l := range parked {
		out = append(out, "ok:"+g.pretty(l))
	}
	if len(g.announce) > 0 {
		out = append(out, fmt.Sprintf("m0%d", g.announce[0]))
	}
	if g.writes > 0 {
		out = append(out, "w0:"+g.Ops[0].Name)
	}
	if g.dups > 0 && len(g.announce) == 0 && len(parked) > 0 {
		out = append(out, "r01")
	}
	return out
}

func (g *GatedMerge) Do(a string) error {
	switch {
	case strings.HasPrefix(a, "ok:"):
		real := ""
		for _, l := range g.Net.Gates.Parked() {
			if g.pretty(l) == a[3:] {
				real = l
			}
		}
		g.LastAction = a
		for _, f := range g.Before {
			f(g.Writers, a)
		}
		if err := g.Net.Gates.Release(real, sim.AnswerOK); err != nil {
			return err
		}
		if err := sim.Quiesce(); err != nil {
			return err
		}
		for _, f := range g.After {
			f(g.Writers, a)
		}
		return nil
	case strings.HasPrefix(a, "m0"):
		g.announce = g.announce[1:]
	case strings.HasPrefix(a, "w0:"):
		g.writes--
	case a == "r01":
		g.dups--
	}
	return g.Writers.Do(a)
}

func (g *GatedMerge) Key() string { return "" }

func (g *GatedMerge) Close() {
	g.Net.Gates.Enable(nil)
	for i := 0; i < 50 && g.Net.Gates.ReleaseAll() > 0; i++ {
		_ = sim.Quiesce()
	}
	g.Writers.Close()
}

// Final: everything released; replica 0 must hold every entry of the announced replicas.
func (g *GatedMerge) Final() []explore.Violation {
	var out []explore.Violation
	log := g.Stores[0].OpLog()
	for j := 1; j < g.N; j++ {
		for _, e := range g.Stores[j].OpLog().GetEntries().Slice() {
			if _, ok := log.Get(e.GetHash()); !ok {
				out = append(out, explore.Violation{Signature: "gated-merge-incomplete", Detail: fmt.Sprintf("replica 0 lacks %s after all fetches were released: holds {%s}", g.EID(e), g.SetKey(0))})
				return out
			}
		}
	}
	return out
}

func gmUnits(base GMArg, shards int, prefix string) []explore.Unit {
	var u []explore.Unit
	for s := 0; s < shards; s++ {
		a := base
		a.Shards, a.Shard = shards, s
		b, _ := json.Marshal(a)
		u = append(u, explore.Unit{Name: a.Name(), Arg: prefix + string(b)})
	}
	return u
}

func runGatedMerge(c *explore.Ctx, arg, prop string, install func(w *Writers)) {
	var a GMArg
	if err := json.Unmarshal([]byte(arg), &a); err != nil {
		c.Stats.HarnessErrs = append(c.Stats.HarnessErrs, err.Error())
		return
	}
	mem := NewMemory()
	d := &explore.ScheduleDFS{
		Settle:   settle,
		Scenario: a.Name(),
		New: func() (explore.World, error) {
			g, err := NewGatedMerge(a, mem)
			if err != nil {
				return nil, err
			}
			install(g.Writers)
			return g, nil
		},
		Bound: a.Bound, Horizon: 300, Stats: c.Stats, Journal: c.JournalHist, Expired: c.Expired,
		Shards: a.Shards, Shard: a.Shard,
		Terminal: func(w explore.World, hist []string) []explore.Violation { return w.(*GatedMerge).Final() },
	}
	d.Run()
	for i := range c.Stats.Violations {
		if c.Stats.Violations[i].Property == "" {
			c.Stats.Violations[i].Property = prop
		}
	}
}
