package scen

import (
	"fmt"
	"sort"
	"strings"
	"sync"

	"berty.tech/go-orbit-db/iface"
	"verifmc/sim"
)

// RacePass runs the bodies of the concurrency harnesses FREE-RUNNING (no gates, no schedule points, real
// scheduler) so that a binary built with -race can observe unsynchronised accesses that the cooperative
// explorer cannot (its hand-offs are happens-before edges). It is advisory: it samples schedules, decides
// no property and is not registered in MANIFEST.json. It returns a description of what ran and the oracle
// mismatches seen (the same state-based oracles as C17 / C01 at quiescence).
func RacePass(rounds int) (ran []string, problems []string) {
	for r := 0; r < rounds; r++ {
		for _, kind := range []string{"eventlog", "keyvalue-same", "keyvalue-distinct", "docstore-same"} {
			name := fmt.Sprintf("free-writers %s n=4 per=3 round=%d", kind, r)
			ran = append(ran, name)
			if p := raceFreeWriters(kind, 4, 3); p != "" {
				problems = append(problems, name+": "+p)
			}
		}
		for _, kind := range []string{"eventlog", "keyvalue", "docstore"} {
			name := fmt.Sprintf("free-replication %s replicas=3 writes=4 round=%d", kind, r)
			ran = append(ran, name)
			if p := raceFreeReplication(kind, 3, 4); p != "" {
				problems = append(problems, name+": "+p)
			}
		}
	}
	return
}

// raceFreeWriters: n goroutines write to one store with nothing parked while two readers query it; then the
// C17 oracle (acknowledged entries distinct, listed once, recovered after restart) is applied.
func raceFreeWriters(kind string, n, per int) string {
	w := &ConcWriters{kind: kind, net: sim.NewNet(), n: n, per: per, acked: map[string]string{}, errs: map[string]error{}}
	w.peer = w.net.AddPeer("W")
	inst, err := w.peer.Start(nil)
	if err != nil {
		return err.Error()
	}
	w.inst = inst
	s, err := inst.DB.Create(bg, "db", w.storeType(), nil)
	if err != nil {
		return err.Error()
	}
	w.store, w.addr = s, s.Address().String()
	var wg sync.WaitGroup
	stop := make(chan struct{})
	for k := 0; k < n; k++ {
		k := k
		wg.Add(1)
		go func() {
			defer wg.Done()
			for j := 0; j < per; j++ {
				payload := fmt.Sprintf("w%d.%d", k, j)
				h, err := w.write(k, j, payload)
				w.mu.Lock()
				if err != nil {
					w.errs[payload] = err
				} else {
					w.acked[payload] = h
				}
				w.mu.Unlock()
			}
			w.mu.Lock()
			w.done++
			w.mu.Unlock()
		}()
	}
	var rg sync.WaitGroup
	for q := 0; q < 2; q++ {
		rg.Add(1)
		go func() {
			defer rg.Done()
			for {
				select {
				case <-stop:
					return
				default:
				}
				_, _ = w.visible(w.store)
				_ = w.store.ReplicationStatus().GetProgress()
				_ = w.store.OpLog().Len()
			}
		}()
	}
	wg.Wait()
	close(stop)
	rg.Wait()
	if err := sim.Quiesce(); err != nil {
		return err.Error()
	}
	vs := w.Final()
	w.Close()
	var out []string
	for _, v := range vs {
		out = append(out, v.Signature)
	}
	return strings.Join(out, ",")
}

// raceFreeReplication: replicas that replicate over the simulated pubsub with automatic delivery all write
// concurrently while announcements, head exchanges and fetches run on the real scheduler; at quiescence
// every replica must hold every entry and show the same listing.
func raceFreeReplication(kind string, n, per int) string {
	w, err := NewWritersOpt(kind, n, nil, true)
	if err != nil {
		return err.Error()
	}
	defer w.Close()
	w.Net.PubSub.Lock()
	w.Net.PubSub.AutoDeliver = true
	w.Net.PubSub.Unlock()
	var wg sync.WaitGroup
	for i := 0; i < n; i++ {
		i := i
		wg.Add(1)
		go func() {
			defer wg.Done()
			for j := 0; j < per; j++ {
				var err error
				switch s := w.Stores[i].(type) {
				case iface.EventLogStore:
					_, err = s.Add(bg, []byte(fmt.Sprintf("r%d.%d", i, j)))
				case iface.KeyValueStore:
					_, err = s.Put(bg, fmt.Sprintf("k%d", j%2), []byte(fmt.Sprintf("r%d.%d", i, j)))
				case iface.DocumentStore:
					_, err = s.Put(bg, map[string]interface{}{"_id": fmt.Sprintf("k%d", j%2), "v": fmt.Sprintf("r%d.%d", i, j)})
				}
				_ = err
				_ = w.Stores[i].ReplicationStatus().GetMax()
			}
		}()
	}
	wg.Wait()
	if err := sim.Quiesce(); err != nil {
		return err.Error()
	}
	// a last round of exchanges so that announcements lost to the busy phase cannot matter
	for i := 0; i < n; i++ {
		heads := w.Stores[i].OpLog().Heads().Slice()
		for j := 0; j < n; j++ {
			if j != i {
				hs, err := WireCopy(w.Addr, heads)
				if err == nil {
					_ = w.Stores[j].Sync(bg, hs)
				}
			}
		}
	}
	if err := sim.Quiesce(); err != nil {
		return err.Error()
	}
	var keys []string
	for i := 0; i < n; i++ {
		keys = append(keys, fmt.Sprintf("%d:%s", w.Stores[i].OpLog().Len(), w.EntriesKey(w.Stores[i].OpLog().Values().Slice())))
	}
	sort.Strings(keys)
	if keys[0] != keys[len(keys)-1] {
		return "replicas differ at quiescence: " + strings.Join(keys, " | ")
	}
	if w.Stores[0].OpLog().Len() != n*per {
		return fmt.Sprintf("replicas hold %d of %d entries", w.Stores[0].OpLog().Len(), n*per)
	}
	return ""
}
