package scen

import (
	ipfslog "berty.tech/go-ipfs-log"
	cid "github.com/ipfs/go-cid"
)

func cidsToStringers(cs []cid.Cid) []interface{ String() string } {
	out := make([]interface{ String() string }, len(cs))
	for i, c := range cs {
		out[i] = c
	}
	return out
}

type interfaceEntry = ipfslog.Entry
