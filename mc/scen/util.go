package scen

import (
	ipfslog "berty.tech/go-ipfs-log"
	"berty.tech/go-ipfs-log/entry"
	"berty.tech/go-orbit-db/stores/operation"
	cid "github.com/ipfs/go-cid"
	"sort"
	"sync"
	"time"

	"github.com/ipfs/boxo/path"
	"verifmc/sim"
)

func cidsToStringers(cs []cid.Cid) []interface{ String() string } {
	out := make([]interface{ String() string }, len(cs))
	for i, c := range cs {
		out[i] = c
	}
	return out
}

type interfaceEntry = ipfslog.Entry

func toLogEntries(es []*entry.Entry) []ipfslog.Entry {
	out := make([]ipfslog.Entry, len(es))
	for i, e := range es {
		out[i] = e
	}
	return out
}

func parseOp(e ipfslog.Entry) (operation.Operation, error) { return operation.ParseOperation(e) }

func sortStrings(s []string) { sort.Strings(s) }

type pathT = path.Path

// settle is the terminal guard of the schedule engines: wait a little, then require quiescence again.
func settle() {
	time.Sleep(time.Millisecond)
	_ = sim.Quiesce()
}

// mustCid parses a CID string that the harness itself produced.
func mustCid(s string) cid.Cid {
	c, err := cid.Decode(s)
	if err != nil {
		panic("harness: bad cid " + s)
	}
	return c
}

// manualCtx is a context the explorer ends on demand with a chosen error: context.Canceled, or
// context.DeadlineExceeded for a deadline that expires exactly at the chosen step.
type manualCtx struct {
	mu   sync.Mutex
	done chan struct{}
	err  error
}

func newManualCtx() *manualCtx { return &manualCtx{done: make(chan struct{})} }

func (c *manualCtx) Deadline() (time.Time, bool)   { return time.Time{}, false }
func (c *manualCtx) Done() <-chan struct{}         { return c.done }
func (c *manualCtx) Value(interface{}) interface{} { return nil }
func (c *manualCtx) Err() error {
	c.mu.Lock()
	defer c.mu.Unlock()
	return c.err
}

// end finishes the context with err (first call wins).
func (c *manualCtx) end(err error) {
	c.mu.Lock()
	if c.err == nil {
		c.err = err
		close(c.done)
	}
	c.mu.Unlock()
}
