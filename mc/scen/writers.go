// Package scen holds the scenarios (worlds, alphabets, oracles) of the individual checks.
package scen

import (
	"bytes"
	"context"
	"encoding/json"
	"fmt"
	"sort"
	"strings"

	ipfslog "berty.tech/go-ipfs-log"
	orbitdb "berty.tech/go-orbit-db"
	"berty.tech/go-orbit-db/accesscontroller"
	"berty.tech/go-orbit-db/iface"
	"berty.tech/go-orbit-db/stores/operation"
	"verifmc/explore"
	"verifmc/sim"
)

var bg = context.Background()

// WOp is one write operation of an alphabet.
type WOp struct {
	Name string
	Do   func(s iface.Store) error
	// ExpectErr: the operation must be refused (and append nothing) when Refused(view) is true.
	Refused func(w *Writers, i int) bool
}

// Writers is the writer world: N instances with distinct identities, each with its own replica of one
// database (no pubsub replication; merges are explicit Sync actions with the other replica's heads).
type Writers struct {
	Kind    string
	N       int
	Net     *sim.Net
	Inst    []*sim.Instance
	Stores  []iface.Store
	Ops     []WOp
	Dup     bool // also offer re-announcement of heads the receiver already holds
	pubkeys []string
	// oracle state
	pending []explore.Violation
	Oracles []func(w *Writers, hist []string) []explore.Violation
	// per-step observers (called inside Do, before and after the action)
	Before []func(w *Writers, action string)
	After  []func(w *Writers, action string)
	// differential memory shared by all worlds of one search
	Mem *Memory
	// bookkeeping for oracles
	LastAction string
	Scratch    map[string]interface{}
}

// Memory is search-wide oracle memory (differential comparisons between paths).
type Memory struct {
	Obs map[string]string // entry-set key -> observables
	Via map[string]string // entry-set key -> first history that reached it
}

func NewMemory() *Memory { return &Memory{Obs: map[string]string{}, Via: map[string]string{}} }

func boolp(b bool) *bool { return &b }

// NewWriters builds the world. Every writer is in the write list.
func NewWriters(kind string, n int, ops []WOp) (*Writers, error) {
	w := &Writers{Kind: kind, N: n, Net: sim.NewNet(), Ops: ops, Scratch: map[string]interface{}{}}
	w.Net.PubSub.AutoDeliver = true
	var ids []string
	for i := 0; i < n; i++ {
		p := w.Net.AddPeer(fmt.Sprintf("W%d", i))
		inst, err := p.Start(nil)
		if err != nil {
			return nil, err
		}
		w.Inst = append(w.Inst, inst)
		ids = append(ids, inst.DB.Identity().ID)
		w.pubkeys = append(w.pubkeys, string(inst.DB.Identity().PublicKey))
	}
	ac := accesscontroller.NewEmptyManifestParams()
	ac.SetAccess("write", ids)
	st := kind
	s0, err := w.Inst[0].DB.Create(bg, "db", st, &orbitdb.CreateDBOptions{AccessController: ac, Replicate: boolp(false)})
	if err != nil {
		return nil, fmt.Errorf("create: %w", err)
	}
	w.Stores = append(w.Stores, s0)
	for i := 1; i < n; i++ {
		s, err := w.Inst[i].DB.Open(bg, s0.Address().String(), &orbitdb.CreateDBOptions{Replicate: boolp(false)})
		if err != nil {
			return nil, fmt.Errorf("open: %w", err)
		}
		w.Stores = append(w.Stores, s)
	}
	if err := sim.Quiesce(); err != nil {
		return nil, err
	}
	return w, nil
}

func (w *Writers) Close() {
	for _, i := range w.Inst {
		_ = i.Close()
	}
	_ = sim.Quiesce()
}

// EID is the abstract identity of an entry: writer index @ Lamport time (unique per the C01 assumption).
func (w *Writers) EID(e ipfslog.Entry) string {
	id := string(e.GetClock().GetID())
	for i, pk := range w.pubkeys {
		if pk == id {
			return fmt.Sprintf("W%d@%d", i, e.GetClock().GetTime())
		}
	}
	return fmt.Sprintf("?%x@%d", id, e.GetClock().GetTime())
}

func (w *Writers) EIDs(es []ipfslog.Entry) []string {
	out := make([]string, len(es))
	for i, e := range es {
		out[i] = w.EID(e)
	}
	return out
}

// PayloadDigest is a canonical rendering of an entry's operation (batch members sorted, because their
// order inside the payload comes from Go map iteration).
func PayloadDigest(e ipfslog.Entry) string {
	op, err := operation.ParseOperation(e)
	if err != nil {
		return fmt.Sprintf("raw:%x", explore.Hash(string(e.GetPayload())))
	}
	k := "-"
	if op.GetKey() != nil {
		k = *op.GetKey()
	}
	s := fmt.Sprintf("%s(%q,%q)", op.GetOperation(), k, op.GetValue())
	if ds := op.GetDocs(); len(ds) > 0 {
		var parts []string
		for _, d := range ds {
			parts = append(parts, fmt.Sprintf("%q=%q", d.GetKey(), d.GetValue()))
		}
		sort.Strings(parts)
		s += "[" + strings.Join(parts, ",") + "]"
	}
	return s
}

// SetKey is the canonical key of replica i's entry set: every entry with its writer, time, operation and
// the abstract ids of its direct predecessors (so that equal keys mean equal DAGs).
func (w *Writers) SetKey(i int) string {
	return w.EntriesKey(w.Stores[i].OpLog().GetEntries().Slice())
}

func (w *Writers) EntriesKey(es []ipfslog.Entry) string {
	byHash := map[string]string{}
	for _, e := range es {
		byHash[e.GetHash().String()] = w.EID(e)
	}
	ids := make([]string, 0, len(es))
	for _, e := range es {
		var nx []string
		for _, c := range e.GetNext() {
			if id, ok := byHash[c.String()]; ok {
				nx = append(nx, id)
			} else {
				nx = append(nx, "?")
			}
		}
		sort.Strings(nx)
		ids = append(ids, w.EID(e)+":"+PayloadDigest(e)+"<"+strings.Join(nx, "+"))
	}
	sort.Strings(ids)
	return strings.Join(ids, ",")
}

func (w *Writers) Key() string {
	parts := make([]string, w.N)
	for i := range w.Stores {
		parts[i] = w.SetKey(i)
	}
	return strings.Join(parts, " | ")
}

// WireCopy round-trips heads through the JSON wire format, as an announcement would.
func WireCopy(addr string, heads []ipfslog.Entry) ([]ipfslog.Entry, error) {
	msg := &iface.MessageExchangeHeads{Address: addr}
	b, err := json.Marshal(heads)
	if err != nil {
		return nil, err
	}
	if err := json.Unmarshal(b, &msg.Heads); err != nil {
		return nil, err
	}
	out := make([]ipfslog.Entry, len(msg.Heads))
	for i, h := range msg.Heads {
		out[i] = h
	}
	return out, nil
}

func (w *Writers) hasNew(i, j int) bool {
	li := w.Stores[i].OpLog()
	for _, e := range w.Stores[j].OpLog().GetEntries().Slice() {
		if _, ok := li.Get(e.GetHash()); !ok {
			return true
		}
	}
	return false
}

func (w *Writers) Enabled() []string {
	var out []string
	for i := 0; i < w.N; i++ {
		for _, op := range w.Ops {
			out = append(out, fmt.Sprintf("w%d:%s", i, op.Name))
		}
	}
	for i := 0; i < w.N; i++ {
		for j := 0; j < w.N; j++ {
			if i == j || w.Stores[j].OpLog().Len() == 0 {
				continue
			}
			if w.hasNew(i, j) {
				out = append(out, fmt.Sprintf("m%d%d", i, j))
			} else if w.Dup {
				out = append(out, fmt.Sprintf("r%d%d", i, j))
			}
		}
	}
	return out
}

func (w *Writers) Do(a string) error {
	w.LastAction = a
	for _, f := range w.Before {
		f(w, a)
	}
	switch {
	case a[0] == 'w':
		i := int(a[1] - '0')
		name := a[3:]
		var op *WOp
		for k := range w.Ops {
			if w.Ops[k].Name == name {
				op = &w.Ops[k]
			}
		}
		if op == nil || i >= w.N {
			return fmt.Errorf("unknown action %q", a)
		}
		before := w.Stores[i].OpLog().Len()
		refused := op.Refused != nil && op.Refused(w, i)
		err := op.Do(w.Stores[i])
		if refused {
			if err == nil {
				w.pending = append(w.pending, explore.Violation{Signature: "refusal-missing:" + opClass(name), Detail: fmt.Sprintf("%s succeeded although it must be refused", a)})
			} else if w.Stores[i].OpLog().Len() != before {
				w.pending = append(w.pending, explore.Violation{Signature: "refused-op-appended:" + opClass(name), Detail: fmt.Sprintf("%s failed but the log grew", a)})
			}
		} else if err != nil {
			w.pending = append(w.pending, explore.Violation{Signature: "write-failed:" + opClass(name), Detail: fmt.Sprintf("%s: %v", a, err)})
		}
	case a[0] == 'm' || a[0] == 'r':
		i, j := int(a[1]-'0'), int(a[2]-'0')
		heads, err := WireCopy(w.Stores[j].Address().String(), w.Stores[j].OpLog().Heads().Slice())
		if err != nil {
			return err
		}
		if err := w.Stores[i].Sync(bg, heads); err != nil {
			w.pending = append(w.pending, explore.Violation{Signature: "sync-error", Detail: fmt.Sprintf("%s: %v", a, err)})
		}
	default:
		return fmt.Errorf("unknown action %q", a)
	}
	if err := sim.Quiesce(); err != nil {
		return err
	}
	for _, f := range w.After {
		f(w, a)
	}
	return nil
}

func opClass(name string) string {
	if i := strings.IndexByte(name, '('); i >= 0 {
		return name[:i]
	}
	return name
}

func (w *Writers) Check(hist []string) []explore.Violation {
	out := w.pending
	w.pending = nil
	for _, o := range w.Oracles {
		out = append(out, o(w, hist)...)
	}
	return out
}

// ---------- reference model ----------

// Causal checks that every entry comes after all of its ancestors that the replica holds.
func Causal(values []ipfslog.Entry) string {
	pos := map[string]int{}
	for i, e := range values {
		pos[e.GetHash().String()] = i
	}
	for i, e := range values {
		for _, c := range append(append([]interface{ String() string }{}, cidsToStringers(e.GetNext())...), cidsToStringers(e.GetRefs())...) {
			if p, ok := pos[c.String()]; ok && p >= i {
				return fmt.Sprintf("entry at %d precedes its ancestor at %d", i, p)
			}
		}
	}
	return ""
}

// RefKV replays PUT/DEL in list order, last writer wins.
func RefKV(values []ipfslog.Entry) (map[string][]byte, error) {
	m := map[string][]byte{}
	for _, e := range values {
		op, err := operation.ParseOperation(e)
		if err != nil {
			return nil, err
		}
		if op.GetKey() == nil {
			continue
		}
		switch op.GetOperation() {
		case "PUT":
			m[*op.GetKey()] = op.GetValue()
		case "DEL":
			delete(m, *op.GetKey())
		}
	}
	return m, nil
}

// RefDocs replays PUT/PUTALL/DEL in list order; a batch member counts as a put at the batch's position.
func RefDocs(values []ipfslog.Entry) (map[string][]byte, error) {
	m := map[string][]byte{}
	for _, e := range values {
		op, err := operation.ParseOperation(e)
		if err != nil {
			return nil, err
		}
		switch op.GetOperation() {
		case "PUTALL":
			for _, d := range op.GetDocs() {
				m[d.GetKey()] = d.GetValue()
			}
		case "PUT":
			if op.GetKey() != nil {
				m[*op.GetKey()] = op.GetValue()
			}
		case "DEL":
			if op.GetKey() != nil {
				delete(m, *op.GetKey())
			}
		}
	}
	return m, nil
}

func kvString(m map[string][]byte) string {
	keys := make([]string, 0, len(m))
	for k := range m {
		keys = append(keys, k)
	}
	sort.Strings(keys)
	var b bytes.Buffer
	for _, k := range keys {
		fmt.Fprintf(&b, "%q=%q;", k, m[k])
	}
	return b.String()
}
