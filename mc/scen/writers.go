// Package scen holds the scenarios (worlds, alphabets, oracles) of the individual checks.
package scen

import (
	"bytes"
	"context"
	"encoding/json"
	"fmt"
	"sort"
	"strings"
	"sync"

	ipfslog "berty.tech/go-ipfs-log"
	"berty.tech/go-ipfs-log/entry"
	orbitdb "berty.tech/go-orbit-db"
	"berty.tech/go-orbit-db/accesscontroller"
	"berty.tech/go-orbit-db/iface"
	"berty.tech/go-orbit-db/stores/basestore"
	"berty.tech/go-orbit-db/stores/operation"
	"verifmc/explore"
	"verifmc/sim"
)

var bg = context.Background()

// WOp is one write operation of an alphabet.
type WOp struct {
	Name string
	Do   func(s iface.Store) error
	// ExpectErr: the operation must be refused (and append nothing) when Refused(view) is true.
	Refused func(w *Writers, i int) bool
}

// Writers is the writer world: N instances with distinct identities, each with its own replica of one
// database (no pubsub replication; merges are explicit Sync actions with the other replica's heads).
type Writers struct {
	Kind   string
	N      int
	Net    *sim.Net
	Inst   []*sim.Instance
	Stores []iface.Store
	Ops    []WOp
	Dup    bool // also offer re-announcement of heads the receiver already holds
	// Observer: an extra replica (index N) that never writes, replicates over pubsub/direct channel and
	// receives announcements by the listed routes ("sync", "topic", "direct"); Antichains also offers
	// announcements of arbitrary single entries and concurrent pairs.
	Observer   bool
	Routes     []string
	Antichains bool
	Reload     bool // offer restart + Load(-1) of every replica
	Snapshot   bool // offer SaveSnapshot + restart + LoadFromSnapshot of every writer replica
	// SnapshotLive: offer "V<i>" (save a snapshot, keep running) and "R<i>" (LoadFromSnapshot on the running
	// store, which may hold more by then: the snapshot re-delivers entries it already has)
	SnapshotLive bool
	// FaultyMerge: offer "f<i><j>", a merge during which replica i's write of its cached remote heads fails
	FaultyMerge bool
	// FaultyWrite: offer "e<i>:<op>", a local write during which the write of the cached local head fails; the
	// call may fail (then the world remembers that an unacknowledged entry may sit in the log) or succeed
	FaultyWrite bool
	// AbortedLoad: offer "K<i>", a Load on the running store whose context is already cancelled (it fails)
	AbortedLoad bool
	// PartialReload: offer "P<i>" for the observer: restart + Load(1), so that it holds only the newest entry and
	// later announcements of older entries merge below its heads
	PartialReload bool
	Gated       bool // gate the observer's replication fetches: completion order becomes explorer choice
	Addr        string
	replicate   []bool
	pubkeys     []string
	// EmitHooks run synchronously inside every event-bus emission of replica i's instance
	EmitHooks []func(w *Writers, i int, evt interface{})
	mu        sync.Mutex
	// oracle state
	pending []explore.Violation
	Oracles []func(w *Writers, hist []string) []explore.Violation
	// per-step observers (called inside Do, before and after the action)
	OnRestart []func(w *Writers, i int)
	OnClose   []func(w *Writers)
	// Pumps let slow subscribers of the harness read while a write call is still in progress (a write may
	// block on a full subscriber buffer); each returns whether it made progress
	Pumps  []func(w *Writers) bool
	Before []func(w *Writers, action string)
	After  []func(w *Writers, action string)
	// differential memory shared by all worlds of one search
	Mem *Memory
	// bookkeeping for oracles
	LastAction string
	Scratch    map[string]interface{}
}

// Memory is search-wide oracle memory (differential comparisons between paths).
type Memory struct {
	Obs map[string]string // entry-set key -> observables
	Via map[string]string // entry-set key -> first history that reached it
}

func NewMemory() *Memory { return &Memory{Obs: map[string]string{}, Via: map[string]string{}} }

func boolp(b bool) *bool { return &b }

// NewWriters builds the world. Every writer is in the write list.
func NewWriters(kind string, n int, ops []WOp) (*Writers, error) {
	return NewWritersOpt(kind, n, ops, false)
}

// NewWritersOpt: with replicate, every replica subscribes to the database topic and messages stay in
// flight until the explorer delivers them.
func NewWritersOpt(kind string, n int, ops []WOp, replicate bool) (*Writers, error) {
	w := &Writers{Kind: kind, N: n, Net: sim.NewNet(), Ops: ops, Scratch: map[string]interface{}{}}
	w.Net.PubSub.AutoDeliver = !replicate
	var ids []string
	for i := 0; i < n; i++ {
		p := w.Net.AddPeer(fmt.Sprintf("W%d", i))
		inst, err := p.Start(nil)
		if err != nil {
			return nil, err
		}
		w.Inst = append(w.Inst, inst)
		w.watch(i, inst)
		ids = append(ids, inst.DB.Identity().ID)
		w.pubkeys = append(w.pubkeys, string(inst.DB.Identity().PublicKey))
	}
	ac := accesscontroller.NewEmptyManifestParams()
	ac.SetAccess("write", ids)
	st := kind
	s0, err := w.Inst[0].DB.Create(bg, "db", st, &orbitdb.CreateDBOptions{AccessController: ac, Replicate: boolp(replicate)})
	if err != nil {
		return nil, fmt.Errorf("create: %w", err)
	}
	w.Stores = append(w.Stores, s0)
	for i := 1; i < n; i++ {
		s, err := w.Inst[i].DB.Open(bg, s0.Address().String(), &orbitdb.CreateDBOptions{Replicate: boolp(replicate)})
		if err != nil {
			return nil, fmt.Errorf("open: %w", err)
		}
		w.Stores = append(w.Stores, s)
	}
	w.Addr = s0.Address().String()
	for range w.Stores {
		w.replicate = append(w.replicate, replicate)
	}
	if err := sim.Quiesce(); err != nil {
		return nil, err
	}
	return w, nil
}

func (w *Writers) watch(i int, inst *sim.Instance) {
	inst.Bus.Monitor(func(evt interface{}) {
		for _, h := range w.EmitHooks {
			h(w, i, evt)
		}
	})
}

// Report records a violation found by a monitor (any goroutine).
func (w *Writers) Report(v explore.Violation) {
	w.mu.Lock()
	w.pending = append(w.pending, v)
	w.mu.Unlock()
}

// AddObserver adds the non-writing replica O (index N) with pubsub replication enabled.
func (w *Writers) AddObserver() error {
	p := w.Net.AddPeer("O")
	inst, err := p.Start(nil)
	if err != nil {
		return err
	}
	s, err := inst.DB.Open(bg, w.Addr, &orbitdb.CreateDBOptions{Replicate: boolp(true)})
	if err != nil {
		return err
	}
	w.Inst = append(w.Inst, inst)
	w.Stores = append(w.Stores, nil)
	w.watch(len(w.Inst)-1, inst)
	w.Stores[len(w.Stores)-1] = s
	w.replicate = append(w.replicate, true)
	w.Observer = true
	return sim.Quiesce()
}

// Restart closes replica i's instance and opens the database again on the same durable state,
// loading it from the cache (fromSnapshot: via LoadFromSnapshot).
func (w *Writers) Restart(i int, fromSnapshot bool) error {
	_ = w.Inst[i].Close()
	if err := sim.Quiesce(); err != nil {
		return err
	}
	inst, err := w.Inst[i].Peer.Start(nil)
	if err != nil {
		return err
	}
	w.Inst[i] = inst
	w.watch(i, inst)
	for _, f := range w.OnRestart {
		f(w, i)
	}
	s, err := inst.DB.Open(bg, w.Addr, &orbitdb.CreateDBOptions{Replicate: boolp(w.replicate[i])})
	if err != nil {
		return err
	}
	w.Stores[i] = s
	if fromSnapshot {
		err = s.LoadFromSnapshot(bg)
	} else {
		err = s.Load(bg, -1)
	}
	if err != nil {
		w.pending = append(w.pending, explore.Violation{Signature: "load-error", Detail: fmt.Sprintf("replica %d (snapshot=%v): %v", i, fromSnapshot, err)})
	}
	return sim.Quiesce()
}

func (w *Writers) Close() {
	for _, f := range w.OnClose {
		f(w)
	}
	for _, i := range w.Inst {
		_ = i.Close()
	}
	_ = sim.Quiesce()
}

// EID is the abstract identity of an entry: writer index @ Lamport time (unique per the C01 assumption).
func (w *Writers) EID(e ipfslog.Entry) string {
	id := string(e.GetClock().GetID())
	for i, pk := range w.pubkeys {
		if pk == id {
			return fmt.Sprintf("W%d@%d", i, e.GetClock().GetTime())
		}
	}
	return fmt.Sprintf("?%x@%d", id, e.GetClock().GetTime())
}

func (w *Writers) EIDs(es []ipfslog.Entry) []string {
	out := make([]string, len(es))
	for i, e := range es {
		out[i] = w.EID(e)
	}
	return out
}

// PayloadDigest is a canonical rendering of an entry's operation (batch members sorted, because their
// order inside the payload comes from Go map iteration).
func PayloadDigest(e ipfslog.Entry) string {
	op, err := operation.ParseOperation(e)
	if err != nil {
		return fmt.Sprintf("raw:%x", explore.Hash(string(e.GetPayload())))
	}
	k := "-"
	if op.GetKey() != nil {
		k = *op.GetKey()
	}
	s := fmt.Sprintf("%s(%q,%q)", op.GetOperation(), k, op.GetValue())
	if ds := op.GetDocs(); len(ds) > 0 {
		var parts []string
		for _, d := range ds {
			parts = append(parts, fmt.Sprintf("%q=%q", d.GetKey(), d.GetValue()))
		}
		sort.Strings(parts)
		s += "[" + strings.Join(parts, ",") + "]"
	}
	return s
}

// SetKey is the canonical key of replica i's entry set: every entry with its writer, time, operation and
// the abstract ids of its direct predecessors (so that equal keys mean equal DAGs).
func (w *Writers) SetKey(i int) string {
	return w.EntriesKey(w.Stores[i].OpLog().GetEntries().Slice())
}

func (w *Writers) EntriesKey(es []ipfslog.Entry) string {
	byHash := map[string]string{}
	for _, e := range es {
		byHash[e.GetHash().String()] = w.EID(e)
	}
	ids := make([]string, 0, len(es))
	for _, e := range es {
		var nx []string
		for _, c := range e.GetNext() {
			if id, ok := byHash[c.String()]; ok {
				nx = append(nx, id)
			} else {
				nx = append(nx, "?")
			}
		}
		sort.Strings(nx)
		ids = append(ids, w.EID(e)+":"+PayloadDigest(e)+"<"+strings.Join(nx, "+"))
	}
	sort.Strings(ids)
	return strings.Join(ids, ",")
}

func (w *Writers) Key() string {
	parts := make([]string, len(w.Stores))
	for i := range w.Stores {
		parts[i] = w.SetKey(i)
	}
	k := strings.Join(parts, " | ")
	if w.SnapshotLive {
		for i := 0; i < w.N; i++ {
			if saved, _ := w.Scratch[fmt.Sprintf("snapshot%d", i)].(string); saved != "" {
				k += fmt.Sprintf(" # snapshot%d={%s}", i, saved)
			}
		}
	}
	return k
}

// WireCopy round-trips heads through the JSON wire format, as an announcement would.
func WireCopy(addr string, heads []ipfslog.Entry) ([]ipfslog.Entry, error) {
	msg := &iface.MessageExchangeHeads{Address: addr}
	b, err := json.Marshal(heads)
	if err != nil {
		return nil, err
	}
	if err := json.Unmarshal(b, &msg.Heads); err != nil {
		return nil, err
	}
	out := make([]ipfslog.Entry, len(msg.Heads))
	for i, h := range msg.Heads {
		out[i] = h
	}
	return out, nil
}

func (w *Writers) hasNew(i, j int) bool {
	li := w.Stores[i].OpLog()
	for _, e := range w.Stores[j].OpLog().GetEntries().Slice() {
		if _, ok := li.Get(e.GetHash()); !ok {
			return true
		}
	}
	return false
}

func (w *Writers) Enabled() []string {
	var out []string
	for i := 0; i < w.N; i++ {
		for _, op := range w.Ops {
			out = append(out, fmt.Sprintf("w%d:%s", i, op.Name))
		}
	}
	if w.FaultyWrite {
		for i := 0; i < w.N; i++ {
			out = append(out, fmt.Sprintf("e%d:%s", i, w.Ops[0].Name))
		}
	}
	if w.AbortedLoad {
		for i := 0; i < w.N; i++ {
			if w.Stores[i].OpLog().Len() > 0 {
				out = append(out, fmt.Sprintf("K%d", i))
			}
		}
	}
	for i := 0; i < w.N; i++ {
		for j := 0; j < w.N; j++ {
			if i == j || w.Stores[j].OpLog().Len() == 0 {
				continue
			}
			if w.hasNew(i, j) {
				out = append(out, fmt.Sprintf("m%d%d", i, j))
				if w.FaultyMerge {
					out = append(out, fmt.Sprintf("f%d%d", i, j))
				}
			} else if w.Dup {
				out = append(out, fmt.Sprintf("r%d%d", i, j))
			}
		}
	}
	if w.Observer {
		o := w.N
		for j := 0; j < w.N; j++ {
			if w.Stores[j].OpLog().Len() == 0 || (!w.hasNew(o, j) && !w.Dup) {
				continue
			}
			for _, r := range w.Routes {
				out = append(out, fmt.Sprintf("a%d:%s", j, r))
			}
		}
		if w.Antichains {
			out = append(out, w.antichainActions()...)
		}
	}
	if w.Reload {
		for i := range w.Stores {
			if w.Stores[i].OpLog().Len() > 0 {
				out = append(out, fmt.Sprintf("L%d", i))
			}
		}
	}
	if w.PartialReload && w.Observer && w.Stores[w.N].OpLog().Len() > 1 {
		out = append(out, fmt.Sprintf("P%d", w.N))
	}
	if w.Snapshot {
		for i := 0; i < w.N; i++ {
			if w.Stores[i].OpLog().Len() > 0 {
				out = append(out, fmt.Sprintf("S%d", i))
			}
		}
	}
	if w.SnapshotLive {
		for i := 0; i < w.N; i++ {
			saved, _ := w.Scratch[fmt.Sprintf("snapshot%d", i)].(string)
			if w.Stores[i].OpLog().Len() > 0 && saved != w.SetKey(i) {
				out = append(out, fmt.Sprintf("V%d", i)) // (saving the same state twice changes nothing)
			}
			if saved != "" {
				out = append(out, fmt.Sprintf("R%d", i))
			}
		}
	}
	return out
}

// universe returns every entry held by any writer, keyed by abstract id.
func (w *Writers) universe() map[string]ipfslog.Entry {
	u := map[string]ipfslog.Entry{}
	for i := 0; i < w.N; i++ {
		for _, e := range w.Stores[i].OpLog().GetEntries().Slice() {
			u[w.EID(e)] = e
		}
	}
	return u
}

// antichainActions offers announcing to the observer any single entry it lacks and any pair of
// concurrent entries (in both list orders).
func (w *Writers) antichainActions() []string {
	u := w.universe()
	olog := w.Stores[w.N].OpLog()
	var ids []string
	for id, e := range u {
		if _, ok := olog.Get(e.GetHash()); !ok {
			ids = append(ids, id)
		}
	}
	sort.Strings(ids)
	anc := func(e ipfslog.Entry) map[string]bool { // all ancestors by hash, over the universe
		byHash := map[string]ipfslog.Entry{}
		for _, x := range u {
			byHash[x.GetHash().String()] = x
		}
		seen := map[string]bool{}
		stack := []ipfslog.Entry{e}
		for len(stack) > 0 {
			x := stack[0]
			stack = stack[1:]
			for _, c := range x.GetNext() {
				if !seen[c.String()] {
					seen[c.String()] = true
					if y, ok := byHash[c.String()]; ok {
						stack = append(stack, y)
					}
				}
			}
		}
		return seen
	}
	var out []string
	for _, a := range ids {
		out = append(out, "x:"+a)
	}
	for i, a := range ids {
		for _, b := range ids[i+1:] {
			ea, eb := u[a], u[b]
			if anc(ea)[eb.GetHash().String()] || anc(eb)[ea.GetHash().String()] {
				continue
			}
			out = append(out, "x:"+a+"+"+b, "x:"+b+"+"+a)
		}
	}
	return out
}

// noteDelivery: one batch of heads was handed to replica i without error, in a world where every block can be
// fetched and every writer is authorised. Once the world is quiet with no fetch parked at a gate, replica i
// holds every head of the batch. A miss is kept for the oracle of the property that names batching (C01).
func (w *Writers) noteDelivery(i int, heads []ipfslog.Entry) error {
	if err := sim.Quiesce(); err != nil {
		return err
	}
	if len(w.Net.Gates.Parked()) > 0 {
		return nil // fetches are waiting for the explorer: nothing to judge yet
	}
	var missing []string
	for _, h := range heads {
		if _, ok := w.Stores[i].OpLog().Get(h.GetHash()); !ok {
			missing = append(missing, w.EID(h))
		}
	}
	if len(missing) > 0 {
		sort.Strings(missing)
		w.Scratch["batch-not-delivered"] = fmt.Sprintf("replica %d was handed the heads %v in one batch and is quiet, but lacks %v", i, w.EIDs(heads), missing)
	}
	return nil
}

// announce delivers heads to the observer by the given route.
func (w *Writers) announce(from int, heads []ipfslog.Entry, route string) error {
	o := w.N
	switch route {
	case "sync":
		hs, err := WireCopy(w.Addr, heads)
		if err != nil {
			return err
		}
		if err := w.Stores[o].Sync(bg, hs); err != nil {
			w.pending = append(w.pending, explore.Violation{Signature: "sync-error", Detail: err.Error()})
		} else if derr := w.noteDelivery(o, hs); derr != nil {
			return derr
		}
	case "topic", "direct":
		hs, err := WireCopy(w.Addr, heads)
		if err != nil {
			return err
		}
		msg := &iface.MessageExchangeHeads{Address: w.Addr}
		for _, h := range hs {
			msg.Heads = append(msg.Heads, h.(*entry.Entry))
		}
		payload, err := json.Marshal(msg)
		if err != nil {
			return err
		}
		if route == "topic" {
			w.Net.PubSub.InjectTopic(w.Inst[from].Peer.ID, w.Inst[o].Peer.ID, w.Addr, payload)
		} else {
			w.Net.PubSub.InjectDirect(w.Inst[from].Peer.ID, w.Inst[o].Peer.ID, payload)
		}
	default:
		return fmt.Errorf("unknown route %q", route)
	}
	return nil
}

func (w *Writers) Do(a string) error {
	w.LastAction = a
	for _, f := range w.Before {
		f(w, a)
	}
	switch {
	case a[0] == 'w':
		i := int(a[1] - '0')
		name := a[3:]
		var op *WOp
		for k := range w.Ops {
			if w.Ops[k].Name == name {
				op = &w.Ops[k]
			}
		}
		if op == nil || i >= w.N {
			return fmt.Errorf("unknown action %q", a)
		}
		before := w.Stores[i].OpLog().Len()
		refused := op.Refused != nil && op.Refused(w, i)
		st := w.Stores[i]
		call := async(a, func() error { return op.Do(st) })
		for round := 0; ; round++ {
			if qerr := sim.Quiesce(); qerr != nil {
				return qerr
			}
			if call.finished() {
				break
			}
			progress := false
			for _, p := range w.Pumps {
				progress = p(w) || progress
			}
			if !progress || round > 256 {
				w.pending = append(w.pending, explore.Violation{Signature: "write-call-never-returns:" + opClass(name), Detail: fmt.Sprintf("%s has not returned although the world is quiescent and every subscriber has read what it was given", a)})
				return fmt.Errorf("write %s blocked", a)
			}
		}
		err := call.err
		if refused {
			if err == nil {
				w.pending = append(w.pending, explore.Violation{Signature: "refusal-missing:" + opClass(name), Detail: fmt.Sprintf("%s succeeded although it must be refused", a)})
			} else if w.Stores[i].OpLog().Len() != before {
				w.pending = append(w.pending, explore.Violation{Signature: "refused-op-appended:" + opClass(name), Detail: fmt.Sprintf("%s failed but the log grew", a)})
			}
		} else if err != nil {
			w.pending = append(w.pending, explore.Violation{Signature: "write-failed:" + opClass(name), Detail: fmt.Sprintf("%s: %v", a, err)})
		}
	case a[0] == 'K':
		// a Load on the running store that fails at once (its context is cancelled): it changes nothing
		i := int(a[1] - '0')
		ctx, cancel := context.WithCancel(context.Background())
		cancel()
		_ = w.Stores[i].Load(ctx, -1)
	case a[0] == 'e':
		// a local write during which the write of `_localHeads` fails (one storage fault)
		i := int(a[1] - '0')
		peer := fmt.Sprintf("W%d", i)
		w.Net.Gates.Enable(func(kind, p, key, caller string) bool {
			return kind == "cache.put" && p == peer && strings.HasSuffix(key, "_localHeads")
		})
		st := w.Stores[i]
		call := async(a, func() error { return w.Ops[0].Do(st) })
		for round := 0; round < 100; round++ {
			if qerr := sim.Quiesce(); qerr != nil {
				return qerr
			}
			parked := w.Net.Gates.Parked()
			if len(parked) == 0 && call.finished() {
				break
			}
			for _, l := range parked {
				_ = w.Net.Gates.Release(l, sim.AnswerFail)
			}
			for _, p := range w.Pumps {
				p(w)
			}
		}
		w.Net.Gates.Enable(nil)
	case a[0] == 'f':
		// a merge during which the merging replica's write of `_remoteHeads` fails (one storage fault)
		i, j := int(a[1]-'0'), int(a[2]-'0')
		heads, err := WireCopy(w.Stores[j].Address().String(), w.Stores[j].OpLog().Heads().Slice())
		if err != nil {
			return err
		}
		peer := fmt.Sprintf("W%d", i)
		w.Net.Gates.Enable(func(kind, p, key, caller string) bool {
			return kind == "cache.put" && p == peer && strings.HasSuffix(key, "_remoteHeads")
		})
		call := async(a, func() error { return w.Stores[i].Sync(bg, heads) })
		for round := 0; round < 100; round++ {
			if qerr := sim.Quiesce(); qerr != nil {
				return qerr
			}
			parked := w.Net.Gates.Parked()
			if len(parked) == 0 && call.finished() {
				break
			}
			for _, l := range parked {
				_ = w.Net.Gates.Release(l, sim.AnswerFail)
			}
		}
		w.Net.Gates.Enable(nil)
	case a[0] == 'm' || a[0] == 'r':
		i, j := int(a[1]-'0'), int(a[2]-'0')
		heads, err := WireCopy(w.Stores[j].Address().String(), w.Stores[j].OpLog().Heads().Slice())
		if err != nil {
			return err
		}
		if err := w.Stores[i].Sync(bg, heads); err != nil {
			w.pending = append(w.pending, explore.Violation{Signature: "sync-error", Detail: fmt.Sprintf("%s: %v", a, err)})
		} else if derr := w.noteDelivery(i, heads); derr != nil {
			return derr
		}
	case a[0] == 'a':
		j := int(a[1] - '0')
		if err := w.announce(j, w.Stores[j].OpLog().Heads().Slice(), a[3:]); err != nil {
			return err
		}
	case a[0] == 'x':
		u := w.universe()
		var heads []ipfslog.Entry
		for _, id := range strings.Split(a[2:], "+") {
			e, ok := u[id]
			if !ok {
				return fmt.Errorf("unknown entry %q in %q", id, a)
			}
			heads = append(heads, e)
		}
		if err := w.announce(0, heads, "sync"); err != nil {
			return err
		}
	case a[0] == 'L':
		i := int(a[1] - '0')
		before := w.SetKey(i)
		if err := w.Restart(i, false); err != nil {
			return err
		}
		if after := w.SetKey(i); after != before {
			// kept for the oracle of the property that names "load from disk" as a delivery route (C01)
			w.Scratch["reload-changed-set"] = fmt.Sprintf("replica %d held {%s} before its restart and holds {%s} after Load(-1)", i, before, after)
		}
	case a[0] == 'P':
		i := int(a[1] - '0')
		_ = w.Inst[i].Close()
		if err := sim.Quiesce(); err != nil {
			return err
		}
		inst, err := w.Inst[i].Peer.Start(nil)
		if err != nil {
			return err
		}
		w.Inst[i] = inst
		w.watch(i, inst)
		for _, f := range w.OnRestart {
			f(w, i)
		}
		s, err := inst.DB.Open(bg, w.Addr, &orbitdb.CreateDBOptions{Replicate: boolp(w.replicate[i])})
		if err != nil {
			return err
		}
		w.Stores[i] = s
		if err := s.Load(bg, 1); err != nil {
			w.pending = append(w.pending, explore.Violation{Signature: "load-error", Detail: fmt.Sprintf("replica %d: Load(1): %v", i, err)})
		}
	case a[0] == 'V':
		i := int(a[1] - '0')
		if _, err := basestore.SaveSnapshot(bg, w.Stores[i]); err != nil {
			w.Scratch["snapshot-save-error"] = err.Error()
			break
		}
		w.Scratch[fmt.Sprintf("snapshot%d", i)] = w.SetKey(i)
	case a[0] == 'R':
		i := int(a[1] - '0')
		before := w.SetKey(i)
		if err := w.Stores[i].LoadFromSnapshot(bg); err != nil {
			w.pending = append(w.pending, explore.Violation{Signature: "load-error", Detail: fmt.Sprintf("replica %d: LoadFromSnapshot on the running store: %v", i, err)})
		}
		if err := sim.Quiesce(); err != nil {
			return err
		}
		if after := w.SetKey(i); after != before {
			w.Scratch["reload-changed-set"] = fmt.Sprintf("replica %d held {%s}, loaded its own earlier snapshot and holds {%s}", i, before, after)
		}
	case a[0] == 'S':
		i := int(a[1] - '0')
		if _, err := basestore.SaveSnapshot(bg, w.Stores[i]); err != nil {
			w.Scratch["snapshot-save-error"] = err.Error()
			break // saving may fail; then nothing is reloaded
		}
		if err := w.Restart(i, true); err != nil {
			return err
		}
	default:
		return fmt.Errorf("unknown action %q", a)
	}
	if err := sim.Quiesce(); err != nil {
		return err
	}
	for _, f := range w.After {
		f(w, a)
	}
	return nil
}

func opClass(name string) string {
	if i := strings.IndexByte(name, '('); i >= 0 {
		return name[:i]
	}
	return name
}

func (w *Writers) Check(hist []string) []explore.Violation {
	w.mu.Lock()
	out := w.pending
	w.pending = nil
	w.mu.Unlock()
	for _, o := range w.Oracles {
		out = append(out, o(w, hist)...)
	}
	return out
}

// ---------- reference model ----------

// Causal checks that every entry comes after all of its ancestors that the replica holds.
func Causal(values []ipfslog.Entry) string {
	pos := map[string]int{}
	for i, e := range values {
		pos[e.GetHash().String()] = i
	}
	for i, e := range values {
		for _, c := range append(append([]interface{ String() string }{}, cidsToStringers(e.GetNext())...), cidsToStringers(e.GetRefs())...) {
			if p, ok := pos[c.String()]; ok && p >= i {
				return fmt.Sprintf("entry at %d precedes its ancestor at %d", i, p)
			}
		}
	}
	return ""
}

// RefKV replays PUT/DEL in list order, last writer wins.
func RefKV(values []ipfslog.Entry) (map[string][]byte, error) {
	m := map[string][]byte{}
	for _, e := range values {
		op, err := operation.ParseOperation(e)
		if err != nil {
			return nil, err
		}
		if op.GetKey() == nil {
			continue
		}
		switch op.GetOperation() {
		case "PUT":
			m[*op.GetKey()] = op.GetValue()
		case "DEL":
			delete(m, *op.GetKey())
		}
	}
	return m, nil
}

// RefDocs replays PUT/PUTALL/DEL in list order; a batch member counts as a put at the batch's position.
func RefDocs(values []ipfslog.Entry) (map[string][]byte, error) {
	m := map[string][]byte{}
	for _, e := range values {
		op, err := operation.ParseOperation(e)
		if err != nil {
			return nil, err
		}
		switch op.GetOperation() {
		case "PUTALL":
			for _, d := range op.GetDocs() {
				m[d.GetKey()] = d.GetValue()
			}
		case "PUT":
			if op.GetKey() != nil {
				m[*op.GetKey()] = op.GetValue()
			}
		case "DEL":
			if op.GetKey() != nil {
				delete(m, *op.GetKey())
			}
		}
	}
	return m, nil
}

func kvString(m map[string][]byte) string {
	keys := make([]string, 0, len(m))
	for k := range m {
		keys = append(keys, k)
	}
	sort.Strings(keys)
	var b bytes.Buffer
	for _, k := range keys {
		fmt.Fprintf(&b, "%q=%q;", k, m[k])
	}
	return b.String()
}
