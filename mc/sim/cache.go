package sim

import (
	"context"
	"errors"
	"path"
	"sort"
	"sync"

	"berty.tech/go-orbit-db/address"
	"berty.tech/go-orbit-db/cache"
	datastore "github.com/ipfs/go-datastore"
	"github.com/ipfs/go-datastore/query"
)

// Disk is the durable key/value state of one peer's cache directory; it survives instance restarts.
type Disk struct {
	mu     sync.Mutex
	spaces map[string]map[string][]byte
}

func NewDisk() *Disk { return &Disk{spaces: map[string]map[string][]byte{}} }

// Snapshot returns a deep, canonical copy: space -> key -> value.
func (d *Disk) Snapshot() map[string]map[string][]byte {
	d.mu.Lock()
	defer d.mu.Unlock()
	out := map[string]map[string][]byte{}
	for s, m := range d.spaces {
		c := map[string][]byte{}
		for k, v := range m {
			c[k] = append([]byte{}, v...)
		}
		out[s] = c
	}
	return out
}

// Apply writes one cache effect directly (used to build recovered worlds).
func (d *Disk) Apply(e Effect) {
	d.mu.Lock()
	defer d.mu.Unlock()
	m := d.spaces[e.Space]
	if m == nil {
		m = map[string][]byte{}
		d.spaces[e.Space] = m
	}
	switch e.Kind {
	case "cache-put":
		m[e.Key] = append([]byte{}, e.Value...)
	case "cache-del":
		delete(m, e.Key)
	case "cache-destroy":
		delete(d.spaces, e.Space)
	}
}

func (d *Disk) Spaces() []string {
	d.mu.Lock()
	defer d.mu.Unlock()
	var out []string
	for s := range d.spaces {
		out = append(out, s)
	}
	sort.Strings(out)
	return out
}

// Cache implements cache.Interface over a Disk; one Cache per instance lifetime.
type Cache struct {
	peer *Peer
	disk *Disk
	mu   sync.Mutex
	open map[string]*simDS
}

func NewCache(p *Peer, d *Disk) *Cache { return &Cache{peer: p, disk: d, open: map[string]*simDS{}} }

func spaceKey(directory string, a address.Address) string {
	return path.Join(directory, path.Join(a.GetRoot().String(), a.GetPath()))
}

func (c *Cache) Load(directory string, a address.Address) (datastore.Datastore, error) {
	k := spaceKey(directory, a)
	c.mu.Lock()
	defer c.mu.Unlock()
	if ds, ok := c.open[k]; ok {
		return ds, nil
	}
	ds := &simDS{c: c, space: k}
	c.open[k] = ds
	return ds, nil
}

func (c *Cache) Close() error {
	c.mu.Lock()
	var all []*simDS
	for _, ds := range c.open {
		all = append(all, ds)
	}
	c.mu.Unlock()
	for _, ds := range all {
		_ = ds.Close()
	}
	return nil
}

func (c *Cache) Destroy(directory string, a address.Address) error {
	k := spaceKey(directory, a)
	c.mu.Lock()
	ds := c.open[k]
	c.mu.Unlock()
	if ds != nil {
		_ = ds.Close()
	}
	c.disk.Apply(Effect{Kind: "cache-destroy", Space: k})
	c.peer.logEffect(Effect{Kind: "cache-destroy", Space: k})
	return nil
}

var errClosed = errors.New("sim: datastore closed")

type simDS struct {
	c      *Cache
	space  string
	mu     sync.Mutex
	closed bool
}

func (s *simDS) isClosed() bool {
	s.mu.Lock()
	defer s.mu.Unlock()
	return s.closed
}

func (s *simDS) Get(_ context.Context, key datastore.Key) ([]byte, error) {
	if s.isClosed() {
		return nil, errClosed
	}
	s.c.disk.mu.Lock()
	defer s.c.disk.mu.Unlock()
	v, ok := s.c.disk.spaces[s.space][key.String()]
	if !ok {
		return nil, datastore.ErrNotFound
	}
	return append([]byte{}, v...), nil
}

func (s *simDS) Has(ctx context.Context, key datastore.Key) (bool, error) {
	_, err := s.Get(ctx, key)
	if err == datastore.ErrNotFound {
		return false, nil
	}
	return err == nil, err
}

func (s *simDS) GetSize(ctx context.Context, key datastore.Key) (int, error) {
	v, err := s.Get(ctx, key)
	if err != nil {
		return -1, err
	}
	return len(v), nil
}

func (s *simDS) Query(_ context.Context, q query.Query) (query.Results, error) {
	if s.isClosed() {
		return nil, errClosed
	}
	s.c.disk.mu.Lock()
	var es []query.Entry
	for k, v := range s.c.disk.spaces[s.space] {
		es = append(es, query.Entry{Key: k, Value: append([]byte{}, v...), Size: len(v)})
	}
	s.c.disk.mu.Unlock()
	sort.Slice(es, func(i, j int) bool { return es[i].Key < es[j].Key })
	return query.NaiveQueryApply(q, query.ResultsWithEntries(q, es)), nil
}

func (s *simDS) Put(ctx context.Context, key datastore.Key, value []byte) error {
	if s.isClosed() {
		return errClosed
	}
	ans, err := s.c.peer.net.Gates.Pass(ctx, "cache.put", s.c.peer.Name, key.String())
	if err != nil {
		return err
	}
	if ans == AnswerFail {
		return errors.New("sim: injected cache put failure")
	}
	if s.isClosed() {
		return errClosed
	}
	e := Effect{Kind: "cache-put", Space: s.space, Key: key.String(), Value: append([]byte{}, value...)}
	s.c.disk.Apply(e)
	s.c.peer.logEffect(e)
	return nil
}

func (s *simDS) Delete(_ context.Context, key datastore.Key) error {
	if s.isClosed() {
		return errClosed
	}
	e := Effect{Kind: "cache-del", Space: s.space, Key: key.String()}
	s.c.disk.Apply(e)
	s.c.peer.logEffect(e)
	return nil
}

func (s *simDS) Sync(context.Context, datastore.Key) error { return nil }

func (s *simDS) Close() error {
	s.mu.Lock()
	if s.closed {
		s.mu.Unlock()
		return nil
	}
	s.closed = true
	s.mu.Unlock()
	s.c.mu.Lock()
	if s.c.open[s.space] == s {
		delete(s.c.open, s.space)
	}
	s.c.mu.Unlock()
	return nil
}

var _ cache.Interface = &Cache{}
var _ datastore.Datastore = &simDS{}
