package sim

import (
	"context"
	"fmt"
	"runtime"
	"sort"
	"strings"
	"sync"
)

// Answer is what the explorer tells a parked call to do.
type Answer int

const (
	AnswerOK Answer = iota
	AnswerFail
)

type parked struct {
	label string
	ch    chan Answer
}

// Gates turns selected environment calls and hook points into parking places: the calling goroutine
// blocks under a deterministic label until the explorer releases it.
type Gates struct {
	mu     sync.Mutex
	match  func(kind, peer, key, caller string) bool
	parked map[string]*parked
	// Log of every pass (gated or not), for oracles that need to know what the code asked for.
	trace   []string
	tracing bool
	// Deaf: gated calls do not notice that their context ended (the environment call completes or fails on
	// its own, whatever happened to the request meanwhile); only Release lets them continue
	Deaf bool
}

func NewGates() *Gates { return &Gates{parked: map[string]*parked{}} }

// Enable installs the predicate deciding which calls park. nil disables gating.
func (g *Gates) Enable(match func(kind, peer, key, caller string) bool) {
	g.mu.Lock()
	g.match = match
	g.mu.Unlock()
}

func (g *Gates) SetTracing(on bool) {
	g.mu.Lock()
	g.tracing = on
	g.mu.Unlock()
}

func (g *Gates) Trace() []string {
	g.mu.Lock()
	defer g.mu.Unlock()
	return append([]string{}, g.trace...)
}

// callerClass names the innermost go-orbit-db function on the stack (package-qualified, short).
func callerClass() string {
	pcs := make([]uintptr, 48)
	n := runtime.Callers(3, pcs)
	frames := runtime.CallersFrames(pcs[:n])
	for {
		f, more := frames.Next()
		if strings.Contains(f.Function, "berty.tech/go-orbit-db/") && !strings.Contains(f.Function, "/verifhook") {
			fn := f.Function[strings.LastIndex(f.Function, "/")+1:]
			// strip closure suffixes so labels do not depend on compiler numbering
			if i := strings.Index(fn, ".func"); i >= 0 {
				fn = fn[:i]
			}
			return fn
		}
		if !more {
			return "-"
		}
	}
}

// Pass is called by the environment (and by hook points) before it answers. It returns at once with
// AnswerOK unless the call is gated; a gated call waits for Release or for ctx to end.
func (g *Gates) Pass(ctx context.Context, kind, peer, key string) (Answer, error) {
	g.mu.Lock()
	if g.match == nil && !g.tracing {
		g.mu.Unlock()
		return AnswerOK, nil
	}
	caller := callerClass()
	if g.tracing {
		g.trace = append(g.trace, kind+"|"+peer+"|"+key+"|"+caller)
	}
	if g.match == nil || !g.match(kind, peer, key, caller) {
		g.mu.Unlock()
		return AnswerOK, nil
	}
	base := kind + "|" + peer + "|" + key + "|" + caller
	label := base
	for i := 2; ; i++ {
		if _, dup := g.parked[label]; !dup {
			break
		}
		label = fmt.Sprintf("%s#%d", base, i)
	}
	p := &parked{label: label, ch: make(chan Answer, 1)}
	g.parked[label] = p
	deaf := g.Deaf
	g.mu.Unlock()
	if deaf {
		return <-p.ch, nil
	}

	select {
	case a := <-p.ch:
		return a, nil
	case <-ctx.Done():
		g.mu.Lock()
		if g.parked[label] == p {
			delete(g.parked, label)
		}
		g.mu.Unlock()
		return AnswerFail, ctx.Err()
	}
}

// Parked lists the labels of parked calls in canonical (sorted) order.
func (g *Gates) Parked() []string {
	g.mu.Lock()
	defer g.mu.Unlock()
	out := make([]string, 0, len(g.parked))
	for l := range g.parked {
		out = append(out, l)
	}
	sort.Strings(out)
	return out
}

// Release lets the call parked under label continue with the given answer.
func (g *Gates) Release(label string, a Answer) error {
	g.mu.Lock()
	p, ok := g.parked[label]
	if ok {
		delete(g.parked, label)
	}
	g.mu.Unlock()
	if !ok {
		return fmt.Errorf("sim: no call parked under %q", label)
	}
	p.ch <- a
	return nil
}

// ReleaseAll releases everything currently parked with AnswerOK, repeatedly until nothing parks
// (the caller must quiesce between rounds; this does a single round).
func (g *Gates) ReleaseAll() int {
	n := 0
	for _, l := range g.Parked() {
		if g.Release(l, AnswerOK) == nil {
			n++
		}
	}
	return n
}
