package sim

import (
	"context"
	"fmt"
	"sync"
	"sync/atomic"

	"berty.tech/go-orbit-db/verifhook"
)

var (
	pointGates atomic.Value // *Gates
	hookOnce   sync.Once
	// PointDetail renders the object passed to a schedule point into the label (set per scenario).
	pointDetail atomic.Value // func(name string, obj interface{}) string
)

type hasher interface{ GetHash() fmt.Stringer }

// UsePointGates routes /repo's verifhook schedule points to g (nil: points pass freely).
func UsePointGates(g *Gates, detail func(name string, obj interface{}) string) {
	hookOnce.Do(func() {
		verifhook.SetHandler(func(name string, obj interface{}) {
			g, _ := pointGates.Load().(*Gates)
			if g == nil {
				return
			}
			d := ""
			if f, _ := pointDetail.Load().(func(string, interface{}) string); f != nil {
				d = f(name, obj)
			} else if obj != nil {
				d = fmt.Sprint(obj)
			}
			_, _ = g.Pass(context.Background(), "point", name, d)
		})
	})
	if detail == nil {
		detail = func(_ string, obj interface{}) string {
			if obj == nil {
				return ""
			}
			return fmt.Sprint(obj)
		}
	}
	pointDetail.Store(detail)
	if g == nil {
		pointGates.Store((*Gates)(nil))
		return
	}
	pointGates.Store(g)
}
