package sim

import (
	"context"
	"fmt"
	"runtime"
	"strings"
	"sync"
	"sync/atomic"

	"berty.tech/go-orbit-db/verifhook"
)

var (
	pointGates atomic.Value // *Gates
	hookOnce   sync.Once
	// PointDetail renders the object passed to a schedule point into the label (set per scenario).
	pointDetail atomic.Value // func(name string, obj interface{}) string
)

type hasher interface{ GetHash() fmt.Stringer }

// UsePointGates routes /repo's verifhook schedule points to g (nil: points pass freely).
func UsePointGates(g *Gates, detail func(name string, obj interface{}) string) {
	hookOnce.Do(func() {
		verifhook.SetHandler(func(name string, obj interface{}) {
			g, _ := pointGates.Load().(*Gates)
			if g == nil {
				return
			}
			d := ""
			if f, _ := pointDetail.Load().(func(string, interface{}) string); f != nil {
				d = f(name, obj)
			} else if obj != nil {
				d = fmt.Sprint(obj)
			}
			_, _ = g.Pass(context.Background(), "point", name, d)
		})
	})
	if detail == nil {
		detail = func(_ string, obj interface{}) string {
			if obj == nil {
				return ""
			}
			return fmt.Sprint(obj)
		}
	}
	pointDetail.Store(detail)
	if g == nil {
		pointGates.Store((*Gates)(nil))
		return
	}
	pointGates.Store(g)
}

var goroutineTags sync.Map // goroutine id -> tag

func goid() string {
	var buf [64]byte
	n := runtime.Stack(buf[:], false)
	f := strings.Fields(string(buf[:n]))
	if len(f) > 1 {
		return f[1]
	}
	return ""
}

// TagGoroutine names the calling goroutine for schedule-point labels that carry no object of their own
// (lock points): the explorer can then tell the threads of a scenario apart. UntagGoroutine removes it.
func TagGoroutine(tag string) { goroutineTags.Store(goid(), tag) }
func UntagGoroutine()         { goroutineTags.Delete(goid()) }

// GoroutineTag returns the calling goroutine's tag ("" if it has none).
func GoroutineTag() string {
	if t, ok := goroutineTags.Load(goid()); ok {
		return t.(string)
	}
	return ""
}

// GoroutineRoot names the calling goroutine by the outermost go-orbit-db function on its stack (the function
// it was started in), closure suffixes stripped: a stable name for goroutines the code under test starts
// itself (store main loop, replicator workers).
func GoroutineRoot() string {
	pcs := make([]uintptr, 64)
	n := runtime.Callers(2, pcs)
	frames := runtime.CallersFrames(pcs[:n])
	root := ""
	for {
		f, more := frames.Next()
		if strings.Contains(f.Function, "berty.tech/go-orbit-db/") && !strings.Contains(f.Function, "/verifhook") {
			fn := f.Function[strings.LastIndex(f.Function, "/")+1:]
			if i := strings.Index(fn, ".func"); i >= 0 {
				fn = fn[:i]
			}
			root = fn
		}
		if !more {
			break
		}
	}
	return root
}
