// Package sim is the closed, deterministic environment in which the real go-orbit-db code is explored:
// a fake IPFS CoreAPI (block DAG shared over links between peers, unixfs via boxo's real importer), pubsub,
// direct channel, cache and keystore. Every answer the environment gives can be turned into an explicit
// choice of the explorer through gates.
package sim

import (
	"context"
	"crypto/sha256"
	"errors"
	"fmt"
	"io"
	"sort"
	"sync"

	chunker "github.com/ipfs/boxo/chunker"
	"github.com/ipfs/boxo/files"
	"github.com/ipfs/boxo/ipld/merkledag"
	unixfile "github.com/ipfs/boxo/ipld/unixfs/file"
	"github.com/ipfs/boxo/ipld/unixfs/importer"
	"github.com/ipfs/boxo/path"
	cid "github.com/ipfs/go-cid"
	ipld "github.com/ipfs/go-ipld-format"
	coreiface "github.com/ipfs/kubo/core/coreiface"
	"github.com/ipfs/kubo/core/coreiface/options"
	"github.com/libp2p/go-libp2p/core/crypto"
	"github.com/libp2p/go-libp2p/core/peer"
)

// Effect is one persistence effect (or acknowledgement marker) of a peer, in issue order.
type Effect struct {
	Kind  string // "block", "cache-put", "cache-del", "ack"
	Key   string // cid / cache key / marker text
	Value []byte // cache value
	Space string // cache namespace (directory|address)
	Node  ipld.Node // the block, for "block" effects
}

// Net is the simulated network: peers, links, per-peer block stores.
type Net struct {
	mu     sync.Mutex
	peers  map[peer.ID]*Peer
	order  []peer.ID
	cut    map[[2]peer.ID]bool // links are up unless cut
	Gates  *Gates
	PubSub *PubSubNet
}

func NewNet() *Net {
	n := &Net{peers: map[peer.ID]*Peer{}, cut: map[[2]peer.ID]bool{}, Gates: NewGates()}
	n.PubSub = newPubSubNet(n)
	return n
}

func linkKey(a, b peer.ID) [2]peer.ID {
	if a > b {
		a, b = b, a
	}
	return [2]peer.ID{a, b}
}

// Linked reports whether a and b can currently reach each other.
func (n *Net) Linked(a, b peer.ID) bool {
	n.mu.Lock()
	defer n.mu.Unlock()
	return !n.cut[linkKey(a, b)]
}

func (n *Net) setCut(a, b peer.ID, cut bool) {
	n.mu.Lock()
	if cut {
		n.cut[linkKey(a, b)] = true
	} else {
		delete(n.cut, linkKey(a, b))
	}
	n.mu.Unlock()
}

// DeterministicPeerID derives a stable peer id from a name.
func DeterministicPeerID(name string) peer.ID {
	seed := sha256.Sum256([]byte("verif-peer-" + name))
	priv, _, err := crypto.GenerateEd25519Key(&seedReader{seed: seed[:]})
	if err != nil {
		panic(err)
	}
	id, err := peer.IDFromPrivateKey(priv)
	if err != nil {
		panic(err)
	}
	return id
}

type seedReader struct {
	seed []byte
	ctr  byte
	buf  []byte
}

func (r *seedReader) Read(p []byte) (int, error) {
	n := 0
	for n < len(p) {
		if len(r.buf) == 0 {
			h := sha256.Sum256(append(append([]byte{}, r.seed...), r.ctr))
			r.ctr++
			r.buf = h[:]
		}
		c := copy(p[n:], r.buf)
		r.buf = r.buf[c:]
		n += c
	}
	return n, nil
}

// Peer is one simulated IPFS node.
type Peer struct {
	net     *Net
	Name    string
	ID      peer.ID
	mu      sync.Mutex
	blocks  map[string]ipld.Node // keyed by multihash, as real blockstores are: a CID with another codec or version reaches the same bytes
	effects []Effect
	// Isolated peers never fetch from others (used for crash recovery worlds).
	Isolated bool
	dur      *durable
}

// AddPeer creates (or returns) the peer with that name.
func (n *Net) AddPeer(name string) *Peer {
	id := DeterministicPeerID(name)
	n.mu.Lock()
	defer n.mu.Unlock()
	if p, ok := n.peers[id]; ok {
		return p
	}
	p := &Peer{net: n, Name: name, ID: id, blocks: map[string]ipld.Node{}}
	n.peers[id] = p
	n.order = append(n.order, id)
	return p
}

func (n *Net) Peer(id peer.ID) *Peer {
	n.mu.Lock()
	defer n.mu.Unlock()
	return n.peers[id]
}

func (n *Net) Peers() []*Peer {
	n.mu.Lock()
	defer n.mu.Unlock()
	out := make([]*Peer, 0, len(n.order))
	for _, id := range n.order {
		out = append(out, n.peers[id])
	}
	return out
}

func (p *Peer) logEffect(e Effect) {
	p.mu.Lock()
	p.effects = append(p.effects, e)
	p.mu.Unlock()
}

// Ack appends an acknowledgement marker to the peer's effect log.
func (p *Peer) Ack(text string) { p.logEffect(Effect{Kind: "ack", Key: text}) }

// Effects returns a copy of the ordered effect log.
func (p *Peer) Effects() []Effect {
	p.mu.Lock()
	defer p.mu.Unlock()
	return append([]Effect{}, p.effects...)
}

// HasBlock reports whether the peer stores the block locally.
func (p *Peer) HasBlock(c cid.Cid) bool {
	p.mu.Lock()
	defer p.mu.Unlock()
	_, ok := p.blocks[string(c.Hash())]
	return ok
}

// aliasNode presents stored bytes under a CID that names the same digest with another codec or version.
type aliasNode struct {
	ipld.Node
	c cid.Cid
}

func (a *aliasNode) Cid() cid.Cid { return a.c }

// Blocks returns the sorted list of locally held block cids.
func (p *Peer) Blocks() []string {
	p.mu.Lock()
	defer p.mu.Unlock()
	out := make([]string, 0, len(p.blocks))
	for _, n := range p.blocks {
		out = append(out, n.Cid().String())
	}
	sort.Strings(out)
	return out
}

// PutBlock stores a node without logging (used to build recovered worlds).
func (p *Peer) PutBlock(n ipld.Node) {
	p.mu.Lock()
	p.blocks[string(n.Cid().Hash())] = n
	p.mu.Unlock()
}

func (p *Peer) BlockNode(c cid.Cid) (ipld.Node, bool) {
	p.mu.Lock()
	defer p.mu.Unlock()
	n, ok := p.blocks[string(c.Hash())]
	if ok && !n.Cid().Equals(c) {
		return &aliasNode{Node: n, c: c}, true
	}
	return n, ok
}

func (p *Peer) addLocal(n ipld.Node) {
	if a, ok := n.(*aliasNode); ok {
		n = a.Node
	}
	p.mu.Lock()
	_, had := p.blocks[string(n.Cid().Hash())]
	p.blocks[string(n.Cid().Hash())] = n
	if !had {
		p.effects = append(p.effects, Effect{Kind: "block", Key: n.Cid().String(), Node: n})
	}
	p.mu.Unlock()
}

func (p *Peer) lookup(c cid.Cid) (ipld.Node, bool) {
	if n, ok := p.BlockNode(c); ok {
		return n, true
	}
	if p.Isolated {
		return nil, false
	}
	for _, q := range p.net.Peers() {
		if q == p || q.Isolated || !p.net.Linked(p.ID, q.ID) {
			continue
		}
		if n, ok := q.BlockNode(c); ok {
			p.addLocal(n) // fetched blocks are stored locally, as bitswap does
			return n, true
		}
	}
	return nil, false
}

// API returns the CoreAPI of the peer.
func (p *Peer) API() coreiface.CoreAPI { return &api{p: p} }

type api struct{ p *Peer }

func (a *api) Unixfs() coreiface.UnixfsAPI  { return &unixfsAPI{a.p} }
func (a *api) Block() coreiface.BlockAPI    { return nil }
func (a *api) Dag() coreiface.APIDagService { return &dagAPI{a.p} }
func (a *api) Name() coreiface.NameAPI      { return nil }
func (a *api) Key() coreiface.KeyAPI        { return &keyAPI{a.p} }
func (a *api) Pin() coreiface.PinAPI        { return nil }
func (a *api) Object() coreiface.ObjectAPI  { return nil }
func (a *api) Swarm() coreiface.SwarmAPI    { return nil }
func (a *api) PubSub() coreiface.PubSubAPI  { return nil }
func (a *api) Routing() coreiface.RoutingAPI {
	return nil
}
func (a *api) ResolvePath(context.Context, path.Path) (path.ImmutablePath, []string, error) {
	return path.ImmutablePath{}, nil, errors.New("sim: ResolvePath not supported")
}
func (a *api) ResolveNode(context.Context, path.Path) (ipld.Node, error) {
	return nil, errors.New("sim: ResolveNode not supported")
}
func (a *api) WithOptions(...options.ApiOption) (coreiface.CoreAPI, error) { return a, nil }

type keyAPI struct{ p *Peer }

type selfKey struct{ id peer.ID }

func (k selfKey) Name() string { return "self" }
func (k selfKey) Path() path.Path {
	p, _ := path.NewPath("/ipns/" + k.id.String())
	return p
}
func (k selfKey) ID() peer.ID { return k.id }

func (k *keyAPI) Generate(context.Context, string, ...options.KeyGenerateOption) (coreiface.Key, error) {
	return nil, errors.New("sim: not supported")
}
func (k *keyAPI) Rename(context.Context, string, string, ...options.KeyRenameOption) (coreiface.Key, bool, error) {
	return nil, false, errors.New("sim: not supported")
}
func (k *keyAPI) List(context.Context) ([]coreiface.Key, error) { return nil, nil }
func (k *keyAPI) Self(context.Context) (coreiface.Key, error)  { return selfKey{k.p.ID}, nil }
func (k *keyAPI) Remove(context.Context, string) (coreiface.Key, error) {
	return nil, errors.New("sim: not supported")
}
func (k *keyAPI) Sign(context.Context, string, []byte) (coreiface.Key, []byte, error) {
	return nil, nil, errors.New("sim: not supported")
}
func (k *keyAPI) Verify(context.Context, string, []byte, []byte) (coreiface.Key, bool, error) {
	return nil, false, errors.New("sim: not supported")
}

type dagAPI struct{ p *Peer }

func (d *dagAPI) Pinning() ipld.NodeAdder { return d }

func (d *dagAPI) Get(ctx context.Context, c cid.Cid) (ipld.Node, error) {
	if err := ctx.Err(); err != nil && !d.p.net.Gates.Deaf {
		return nil, err
	}
	ans, err := d.p.net.Gates.Pass(ctx, "dag.get", d.p.Name, c.String())
	if err != nil {
		return nil, err
	}
	if ans == AnswerFail {
		return nil, ipld.ErrNotFound{Cid: c}
	}
	n, ok := d.p.lookup(c)
	if !ok {
		return nil, ipld.ErrNotFound{Cid: c}
	}
	return n, nil
}

func (d *dagAPI) GetMany(ctx context.Context, cs []cid.Cid) <-chan *ipld.NodeOption {
	out := make(chan *ipld.NodeOption, len(cs))
	for _, c := range cs {
		n, err := d.Get(ctx, c)
		out <- &ipld.NodeOption{Node: n, Err: err}
	}
	close(out)
	return out
}

func (d *dagAPI) Add(ctx context.Context, n ipld.Node) error {
	if err := ctx.Err(); err != nil && !d.p.net.Gates.Deaf {
		return err
	}
	ans, err := d.p.net.Gates.Pass(ctx, "dag.add", d.p.Name, n.Cid().String())
	if err != nil {
		return err
	}
	if ans == AnswerFail {
		return fmt.Errorf("sim: injected dag add failure")
	}
	d.p.addLocal(n)
	return nil
}

func (d *dagAPI) AddMany(ctx context.Context, ns []ipld.Node) error {
	for _, n := range ns {
		if err := d.Add(ctx, n); err != nil {
			return err
		}
	}
	return nil
}

func (d *dagAPI) Remove(context.Context, cid.Cid) error       { return nil }
func (d *dagAPI) RemoveMany(context.Context, []cid.Cid) error { return nil }

type unixfsAPI struct{ p *Peer }

func (u *unixfsAPI) Add(ctx context.Context, node files.Node, _ ...options.UnixfsAddOption) (path.ImmutablePath, error) {
	f, ok := node.(files.File)
	if !ok {
		return path.ImmutablePath{}, errors.New("sim: only files supported")
	}
	nd, err := importer.BuildDagFromReader(&dagAPI{u.p}, chunker.DefaultSplitter(f))
	if err != nil {
		return path.ImmutablePath{}, err
	}
	return path.FromCid(nd.Cid()), nil
}

func (u *unixfsAPI) Get(ctx context.Context, p path.Path) (files.Node, error) {
	ip, err := path.NewImmutablePath(p)
	if err != nil {
		return nil, err
	}
	ds := &dagAPI{u.p}
	nd, err := ds.Get(ctx, ip.RootCid())
	if err != nil {
		return nil, err
	}
	return unixfile.NewUnixfsFile(ctx, ds, nd)
}

func (u *unixfsAPI) Ls(context.Context, path.Path, ...options.UnixfsLsOption) (<-chan coreiface.DirEntry, error) {
	return nil, errors.New("sim: not supported")
}

var _ = merkledag.NewRawNode
var _ io.Reader
