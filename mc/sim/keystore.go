package sim

import (
	"context"
	"crypto/sha256"
	"fmt"
	"sync"

	idp "berty.tech/go-ipfs-log/identityprovider"
	"berty.tech/go-ipfs-log/keystore"
	"github.com/libp2p/go-libp2p/core/crypto"
)

// Keystore is a deterministic keystore: the key for id X is derived from a fixed seed and X, so every
// run (and every process) sees the same identities and, signatures being RFC 6979, the same entry CIDs.
type Keystore struct {
	mu   sync.Mutex
	keys map[string]crypto.PrivKey
	// Gen distinguishes keys created by different keystore generations: a key that has to be created
	// again after a recovery differs from the lost one, as a freshly generated real key would.
	Gen  int
	peer *Peer
	// Created counts CreateKey calls (a restarted peer must not need a new key).
	Created int
}

func NewKeystore() *Keystore { return &Keystore{keys: map[string]crypto.PrivKey{}} }

func derive(id string, gen int) crypto.PrivKey {
	tag := "verif-key-" + id
	if gen > 0 {
		tag = fmt.Sprintf("verif-key-gen%d-%s", gen, id)
	}
	seed := sha256.Sum256([]byte(tag))
	// libp2p's GenerateSecp256k1Key ignores its reader, so build the key from the seed bytes directly
	priv, err := crypto.UnmarshalSecp256k1PrivateKey(seed[:])
	if err != nil {
		panic(err)
	}
	return priv
}

func (k *Keystore) HasKey(_ context.Context, id string) (bool, error) {
	k.mu.Lock()
	defer k.mu.Unlock()
	_, ok := k.keys[id]
	return ok, nil
}

func (k *Keystore) CreateKey(_ context.Context, id string) (crypto.PrivKey, error) {
	k.mu.Lock()
	defer k.mu.Unlock()
	p := derive(id, k.Gen)
	k.keys[id] = p
	k.Created++
	if k.peer != nil {
		raw, _ := p.Raw()
		k.peer.logEffect(Effect{Kind: "key-put", Key: id, Value: raw})
	}
	return p, nil
}

func (k *Keystore) GetKey(_ context.Context, id string) (crypto.PrivKey, error) {
	k.mu.Lock()
	defer k.mu.Unlock()
	p, ok := k.keys[id]
	if !ok {
		return nil, fmt.Errorf("sim: key %q not in keystore", id)
	}
	return p, nil
}

func (k *Keystore) Sign(priv crypto.PrivKey, b []byte) ([]byte, error) { return priv.Sign(b) }

func (k *Keystore) Verify(sig []byte, pub crypto.PubKey, data []byte) error {
	ok, err := pub.Verify(data, sig)
	if err != nil {
		return err
	}
	if !ok {
		return fmt.Errorf("sim: signature not verified")
	}
	return nil
}

// Restore installs a persisted key (recovered worlds).
func (k *Keystore) Restore(id string, raw []byte) error {
	p, err := crypto.UnmarshalSecp256k1PrivateKey(raw)
	if err != nil {
		return err
	}
	k.mu.Lock()
	k.keys[id] = p
	k.mu.Unlock()
	return nil
}

var _ keystore.Interface = &Keystore{}

var (
	idMu    sync.Mutex
	idCache = map[string]*idp.Identity{}
)

// Identity creates (once per process) the real orbitdb identity for a name in the given keystore.
func (k *Keystore) Identity(name string) *idp.Identity {
	id, err := idp.CreateIdentity(context.Background(), &idp.CreateIdentityOptions{Keystore: k, Type: "orbitdb", ID: name})
	if err != nil {
		panic(err)
	}
	return id
}
