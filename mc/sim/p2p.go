package sim

import (
	"bytes"
	"context"
	"errors"
	"io"
	"sync"

	"github.com/libp2p/go-libp2p/core/host"
	"github.com/libp2p/go-libp2p/core/network"
	"github.com/libp2p/go-libp2p/core/peer"
	"github.com/libp2p/go-libp2p/core/protocol"
)

// FakeHost implements the three host.Host methods the direct-channel adapter uses. Streams are in-memory.
type FakeHost struct {
	host.Host // nil: any other method panics, which would show an unexpected dependency
	Self      peer.ID
	mu        sync.Mutex
	handlers  map[protocol.ID]network.StreamHandler
	Peers     map[peer.ID]*FakeHost // reachable hosts for NewStream
	// Sent records what local code wrote on outgoing streams (per NewStream call).
	Sent [][]byte
	// BeforeWrite, if set, is called at the start of every Write on an outgoing stream (a schedule point for
	// scenarios with concurrent senders).
	BeforeWrite func()
}

func NewFakeHost(self peer.ID) *FakeHost {
	return &FakeHost{Self: self, handlers: map[protocol.ID]network.StreamHandler{}, Peers: map[peer.ID]*FakeHost{}}
}

func (h *FakeHost) ID() peer.ID { return h.Self }

func (h *FakeHost) SetStreamHandler(pid protocol.ID, handler network.StreamHandler) {
	h.mu.Lock()
	h.handlers[pid] = handler
	h.mu.Unlock()
}

func (h *FakeHost) RemoveStreamHandler(pid protocol.ID) {
	h.mu.Lock()
	delete(h.handlers, pid)
	h.mu.Unlock()
}

func (h *FakeHost) Handler(pid protocol.ID) network.StreamHandler {
	h.mu.Lock()
	defer h.mu.Unlock()
	return h.handlers[pid]
}

// NewStream returns a stream whose writes are buffered and handed to the remote handler on Close.
func (h *FakeHost) NewStream(ctx context.Context, p peer.ID, pids ...protocol.ID) (network.Stream, error) {
	remote := h.Peers[p]
	if remote == nil {
		return nil, errors.New("fakehost: peer not reachable")
	}
	hd := remote.Handler(pids[0])
	if hd == nil {
		return nil, errors.New("fakehost: protocol not supported")
	}
	return &outStream{from: h, handler: hd}, nil
}

type outStream struct {
	network.Stream
	from    *FakeHost
	handler network.StreamHandler
	buf     bytes.Buffer
	closed  bool
}

func (s *outStream) Write(p []byte) (int, error) {
	if f := s.from.BeforeWrite; f != nil {
		f()
	}
	// the bytes are taken at the time of the call, as a real stream would put them on the wire
	return s.buf.Write(append([]byte{}, p...))
}
func (s *outStream) Close() error {
	if s.closed {
		return nil
	}
	s.closed = true
	data := append([]byte{}, s.buf.Bytes()...)
	s.from.mu.Lock()
	s.from.Sent = append(s.from.Sent, data)
	s.from.mu.Unlock()
	in := NewInStream(s.from.Self, data)
	go s.handler(in)
	return nil
}
func (s *outStream) Reset() error { s.closed = true; return nil }

// InStream is an incoming stream carrying fixed bytes from a remote peer.
type InStream struct {
	network.Stream
	r      io.Reader
	remote peer.ID
	mu     sync.Mutex
	Resets int
}

func NewInStream(remote peer.ID, data []byte) *InStream {
	return &InStream{r: bytes.NewReader(data), remote: remote}
}

func (s *InStream) Read(p []byte) (int, error) { return s.r.Read(p) }
func (s *InStream) Close() error               { return nil }
func (s *InStream) Reset() error {
	s.mu.Lock()
	s.Resets++
	s.mu.Unlock()
	return nil
}
func (s *InStream) Conn() network.Conn { return &fakeConn{remote: s.remote} }

type fakeConn struct {
	network.Conn
	remote peer.ID
}

func (c *fakeConn) RemotePeer() peer.ID { return c.remote }
