package sim

import (
	"context"
	"crypto/sha256"
	"encoding/hex"
	"fmt"
	"sort"
	"sync"

	"berty.tech/go-orbit-db/events"
	"berty.tech/go-orbit-db/iface"
	"github.com/libp2p/go-libp2p/core/peer"
)

// Msg is one message in flight between two peers.
type Msg struct {
	Kind    string // "topic" or "direct"
	From    peer.ID
	To      peer.ID
	Topic   string // topic name for "topic"
	Payload []byte
	seq     int
}

// Label is a canonical, content-based name of the message (stable across runs).
func (m *Msg) Label(n *Net) string {
	h := sha256.Sum256(m.Payload)
	return fmt.Sprintf("%s:%s>%s:%s", m.Kind, n.nameOf(m.From), n.nameOf(m.To), hex.EncodeToString(h[:4]))
}

func (n *Net) nameOf(id peer.ID) string {
	n.mu.Lock()
	defer n.mu.Unlock()
	if p, ok := n.peers[id]; ok {
		return p.Name
	}
	return id.String()
}

type topicSub struct {
	owner  peer.ID
	topic  string
	ctx    context.Context
	chMsg  chan *iface.EventPubSubMessage
	chPeer chan events.Event
	mu     sync.Mutex
	closed bool
}

// PubSubNet holds topic subscriptions, direct channel endpoints and the in-flight bag.
type PubSubNet struct {
	net *Net
	mu  sync.Mutex
	// AutoDeliver delivers every message as soon as it is sent (used by scenarios that do not explore
	// delivery order).
	AutoDeliver bool
	subs        map[string]map[peer.ID]*topicSub // topic -> owner -> sub
	direct      map[peer.ID]*directChannel
	inflight    []*Msg
	seq         int
	// Published records every topic publish and direct send ever made (for C09 monitors).
	Published []*Msg
}

func newPubSubNet(n *Net) *PubSubNet {
	return &PubSubNet{net: n, subs: map[string]map[peer.ID]*topicSub{}, direct: map[peer.ID]*directChannel{}}
}

// ---- pubsub interface per peer ----

type peerPubSub struct {
	ps   *PubSubNet
	self peer.ID
}

// PubSubFor returns the iface.PubSubInterface of one peer.
func (ps *PubSubNet) PubSubFor(p *Peer) iface.PubSubInterface { return &peerPubSub{ps: ps, self: p.ID} }

type simTopic struct {
	ps    *PubSubNet
	self  peer.ID
	topic string
}

func (p *peerPubSub) TopicSubscribe(_ context.Context, topic string) (iface.PubSubTopic, error) {
	return &simTopic{ps: p.ps, self: p.self, topic: topic}, nil
}

func (t *simTopic) Topic() string { return t.topic }

func (t *simTopic) Peers(ctx context.Context) ([]peer.ID, error) {
	if _, err := t.ps.net.Gates.Pass(ctx, "topic.peers", t.ps.net.nameOf(t.self), t.topic); err != nil {
		return nil, err
	}
	t.ps.mu.Lock()
	defer t.ps.mu.Unlock()
	var out []peer.ID
	for id, s := range t.ps.subs[t.topic] {
		if id != t.self && !s.isClosed() && t.ps.net.Linked(t.self, id) {
			out = append(out, id)
		}
	}
	sort.Slice(out, func(i, j int) bool { return out[i] < out[j] })
	return out, nil
}

func (s *topicSub) isClosed() bool {
	select {
	case <-s.ctx.Done():
		return true
	default:
		return false
	}
}

func (t *simTopic) sub(ctx context.Context) *topicSub {
	t.ps.mu.Lock()
	defer t.ps.mu.Unlock()
	m := t.ps.subs[t.topic]
	if m == nil {
		m = map[peer.ID]*topicSub{}
		t.ps.subs[t.topic] = m
	}
	s := m[t.self]
	if s == nil || s.isClosed() {
		s = &topicSub{owner: t.self, topic: t.topic, ctx: ctx,
			chMsg: make(chan *iface.EventPubSubMessage, 128), chPeer: make(chan events.Event, 32)}
		m[t.self] = s
		go func() {
			<-ctx.Done()
			s.mu.Lock()
			s.closed = true
			close(s.chMsg)
			close(s.chPeer)
			s.mu.Unlock()
		}()
	}
	return s
}

func (t *simTopic) WatchPeers(ctx context.Context) (<-chan events.Event, error) {
	s := t.sub(ctx)
	// the new subscriber sees the linked subscribers already there, and they see it
	t.ps.mu.Lock()
	var others []*topicSub
	for id, o := range t.ps.subs[t.topic] {
		if id != t.self && !o.isClosed() && t.ps.net.Linked(t.self, id) {
			others = append(others, o)
		}
	}
	t.ps.mu.Unlock()
	sort.Slice(others, func(i, j int) bool { return others[i].owner < others[j].owner })
	for _, o := range others {
		s.pushPeer(&iface.EventPubSubJoin{Topic: t.topic, Peer: o.owner})
		o.pushPeer(&iface.EventPubSubJoin{Topic: t.topic, Peer: t.self})
	}
	return s.chPeer, nil
}

func (t *simTopic) WatchMessages(ctx context.Context) (<-chan *iface.EventPubSubMessage, error) {
	return t.sub(ctx).chMsg, nil
}

func (s *topicSub) pushPeer(e events.Event) {
	s.mu.Lock()
	defer s.mu.Unlock()
	if s.closed {
		return
	}
	select {
	case s.chPeer <- e:
	default: // buffer of 32 never fills in bounded scenarios; dropping would be a harness limitation
		panic("sim: peer event buffer full")
	}
}

func (s *topicSub) pushMsg(payload []byte) bool {
	s.mu.Lock()
	defer s.mu.Unlock()
	if s.closed {
		return false
	}
	select {
	case s.chMsg <- &iface.EventPubSubMessage{Content: payload}:
		return true
	default:
		panic("sim: message buffer full")
	}
}

func (t *simTopic) Publish(ctx context.Context, message []byte) error {
	if err := ctx.Err(); err != nil {
		return err
	}
	if _, err := t.ps.net.Gates.Pass(ctx, "publish", t.ps.net.nameOf(t.self), t.topic); err != nil {
		return err
	}
	t.ps.mu.Lock()
	var tos []peer.ID
	for id, s := range t.ps.subs[t.topic] {
		if id != t.self && !s.isClosed() && t.ps.net.Linked(t.self, id) {
			tos = append(tos, id)
		}
	}
	sort.Slice(tos, func(i, j int) bool { return tos[i] < tos[j] })
	var msgs []*Msg
	for _, to := range tos {
		t.ps.seq++
		m := &Msg{Kind: "topic", From: t.self, To: to, Topic: t.topic, Payload: append([]byte{}, message...), seq: t.ps.seq}
		t.ps.Published = append(t.ps.Published, m)
		msgs = append(msgs, m)
	}
	if len(tos) == 0 {
		t.ps.Published = append(t.ps.Published, &Msg{Kind: "topic", From: t.self, Topic: t.topic, Payload: append([]byte{}, message...)})
	}
	auto := t.ps.AutoDeliver
	if !auto {
		t.ps.inflight = append(t.ps.inflight, msgs...)
	}
	t.ps.mu.Unlock()
	if auto {
		for _, m := range msgs {
			t.ps.deliver(m)
		}
	}
	return nil
}

// ---- direct channel ----

type directChannel struct {
	ps      *PubSubNet
	self    peer.ID
	emitter iface.DirectChannelEmitter
	ctx     context.Context
	cancel  context.CancelFunc
}

// DirectChannelFactory returns the factory for one peer's instance.
func (ps *PubSubNet) DirectChannelFactory(p *Peer) iface.DirectChannelFactory {
	return func(ctx context.Context, emitter iface.DirectChannelEmitter, _ *iface.DirectChannelOptions) (iface.DirectChannel, error) {
		ctx, cancel := context.WithCancel(ctx)
		dc := &directChannel{ps: ps, self: p.ID, emitter: emitter, ctx: ctx, cancel: cancel}
		ps.mu.Lock()
		ps.direct[p.ID] = dc
		ps.mu.Unlock()
		return dc, nil
	}
}

func (d *directChannel) Connect(ctx context.Context, p peer.ID) error {
	if err := ctx.Err(); err != nil {
		return err
	}
	if !d.ps.net.Linked(d.self, p) {
		return fmt.Errorf("sim: peer not reachable")
	}
	return nil
}

func (d *directChannel) Send(ctx context.Context, p peer.ID, data []byte) error {
	if err := ctx.Err(); err != nil {
		return err
	}
	if err := d.ctx.Err(); err != nil {
		return err
	}
	if !d.ps.net.Linked(d.self, p) {
		return fmt.Errorf("sim: peer not reachable")
	}
	d.ps.mu.Lock()
	d.ps.seq++
	m := &Msg{Kind: "direct", From: d.self, To: p, Payload: append([]byte{}, data...), seq: d.ps.seq}
	d.ps.Published = append(d.ps.Published, m)
	auto := d.ps.AutoDeliver
	if !auto {
		d.ps.inflight = append(d.ps.inflight, m)
	}
	d.ps.mu.Unlock()
	if auto {
		d.ps.deliver(m)
	}
	return nil
}

func (d *directChannel) Close() error {
	d.cancel()
	d.ps.mu.Lock()
	if d.ps.direct[d.self] == d {
		delete(d.ps.direct, d.self)
	}
	d.ps.mu.Unlock()
	return d.emitter.Close()
}

// ---- explorer controls ----

// Inflight returns the in-flight messages in canonical order (by label, then send order).
func (ps *PubSubNet) Inflight() []*Msg {
	ps.mu.Lock()
	out := append([]*Msg{}, ps.inflight...)
	ps.mu.Unlock()
	sort.SliceStable(out, func(i, j int) bool {
		li, lj := out[i].Label(ps.net), out[j].Label(ps.net)
		if li != lj {
			return li < lj
		}
		return out[i].seq < out[j].seq
	})
	return out
}

func (ps *PubSubNet) remove(m *Msg) bool {
	ps.mu.Lock()
	defer ps.mu.Unlock()
	for i, x := range ps.inflight {
		if x == m {
			ps.inflight = append(ps.inflight[:i:i], ps.inflight[i+1:]...)
			return true
		}
	}
	return false
}

// Deliver hands message m to its recipient (if still subscribed / open) and removes it from the bag.
func (ps *PubSubNet) Deliver(m *Msg) { ps.remove(m); ps.deliver(m) }

// Drop loses the message.
func (ps *PubSubNet) Drop(m *Msg) { ps.remove(m) }

// Dup delivers a copy and keeps the original in flight.
func (ps *PubSubNet) Dup(m *Msg) { ps.deliver(m) }

func (ps *PubSubNet) deliver(m *Msg) {
	switch m.Kind {
	case "topic":
		ps.mu.Lock()
		s := ps.subs[m.Topic][m.To]
		ps.mu.Unlock()
		if s != nil {
			s.pushMsg(m.Payload)
		}
	case "direct":
		ps.mu.Lock()
		d := ps.direct[m.To]
		ps.mu.Unlock()
		if d != nil && d.ctx.Err() == nil {
			// emit from a helper goroutine: the bus send may block while the monitor is busy
			go func() { _ = d.emitter.Emit(&iface.EventPubSubPayload{Payload: m.Payload, Peer: m.From}) }()
		}
	}
}

// InjectTopic puts raw bytes on a topic as if sent by `from` to `to` (delivered at once).
func (ps *PubSubNet) InjectTopic(from, to peer.ID, topic string, payload []byte) {
	ps.deliver(&Msg{Kind: "topic", From: from, To: to, Topic: topic, Payload: payload})
}

// InjectDirect hands raw bytes to `to`'s direct channel as if sent by `from`.
func (ps *PubSubNet) InjectDirect(from, to peer.ID, payload []byte) {
	ps.deliver(&Msg{Kind: "direct", From: from, To: to, Payload: payload})
}

// Cut severs the link between a and b: subscribers of common topics see each other leave.
func (ps *PubSubNet) Cut(a, b peer.ID) {
	if !ps.net.Linked(a, b) {
		return
	}
	ps.net.setCut(a, b, true)
	ps.membership(a, b, false)
}

// Heal restores the link: subscribers of common topics see each other join.
func (ps *PubSubNet) Heal(a, b peer.ID) {
	if ps.net.Linked(a, b) {
		return
	}
	ps.net.setCut(a, b, false)
	ps.membership(a, b, true)
}

func (ps *PubSubNet) membership(a, b peer.ID, join bool) {
	ps.mu.Lock()
	var topics []string
	for t, m := range ps.subs {
		sa, sb := m[a], m[b]
		if sa != nil && sb != nil && !sa.isClosed() && !sb.isClosed() {
			topics = append(topics, t)
		}
	}
	sort.Strings(topics)
	type pair struct{ sa, sb *topicSub }
	var pairs []pair
	for _, t := range topics {
		pairs = append(pairs, pair{ps.subs[t][a], ps.subs[t][b]})
	}
	ps.mu.Unlock()
	for _, p := range pairs {
		if join {
			p.sa.pushPeer(&iface.EventPubSubJoin{Topic: p.sa.topic, Peer: b})
			p.sb.pushPeer(&iface.EventPubSubJoin{Topic: p.sb.topic, Peer: a})
		} else {
			p.sa.pushPeer(&iface.EventPubSubLeave{Topic: p.sa.topic, Peer: b})
			p.sb.pushPeer(&iface.EventPubSubLeave{Topic: p.sb.topic, Peer: a})
		}
	}
}

// Lock / Unlock give oracles consistent access to Published.
func (ps *PubSubNet) Lock()   { ps.mu.Lock() }
func (ps *PubSubNet) Unlock() { ps.mu.Unlock() }
