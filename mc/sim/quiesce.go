package sim

import (
	"bytes"
	"fmt"
	"runtime"
	"strings"
	"time"
)

// Goroutine is one parsed record of runtime.Stack(all).
type Goroutine struct {
	ID      string
	Status  string
	Stack   string
	Created string // function named on the "created by" line
}

// Goroutines parses a full goroutine dump.
func Goroutines() []Goroutine {
	buf := make([]byte, 1<<20)
	for {
		n := runtime.Stack(buf, true)
		if n < len(buf) {
			buf = buf[:n]
			break
		}
		buf = make([]byte, 2*len(buf))
	}
	var out []Goroutine
	for _, rec := range bytes.Split(buf, []byte("\n\n")) {
		s := string(rec)
		if !strings.HasPrefix(s, "goroutine ") {
			continue
		}
		nl := strings.IndexByte(s, '\n')
		head := s
		if nl >= 0 {
			head = s[:nl]
		}
		// goroutine 12 [chan receive, 2 minutes]:
		lb, rb := strings.IndexByte(head, '['), strings.LastIndexByte(head, ']')
		if lb < 0 || rb < lb {
			continue
		}
		st := head[lb+1 : rb]
		if c := strings.IndexByte(st, ','); c >= 0 {
			st = st[:c]
		}
		g := Goroutine{ID: strings.TrimSpace(head[len("goroutine "):lb]), Status: st, Stack: s}
		if i := strings.LastIndex(s, "created by "); i >= 0 {
			c := s[i+len("created by "):]
			if j := strings.IndexAny(c, " \n"); j >= 0 {
				c = c[:j]
			}
			g.Created = c
		}
		out = append(out, g)
	}
	return out
}

func blockedStatus(st string) bool {
	switch {
	case strings.HasPrefix(st, "chan receive"), strings.HasPrefix(st, "chan send"),
		strings.HasPrefix(st, "select"), strings.HasPrefix(st, "sync."),
		strings.HasPrefix(st, "semacquire"), strings.HasPrefix(st, "finalizer wait"),
		strings.HasPrefix(st, "force gc"), strings.HasPrefix(st, "GC sweep wait"),
		strings.HasPrefix(st, "GC scavenge wait"), strings.HasPrefix(st, "GC worker (idle)"),
		strings.HasPrefix(st, "cleanup wait"):
		return true
	}
	return false
}

// ignorable goroutines never touch the system under test (runtime helpers, signal handling).
func ignorable(g Goroutine) bool {
	return strings.Contains(g.Stack, "os/signal.") || strings.Contains(g.Stack, "runtime.ensureSigM") ||
		strings.Contains(g.Stack, "runtime/trace.") || strings.Contains(g.Stack, "sim.watchdog")
}

// ErrNotQuiescent is returned when the system does not settle before the watchdog.
type ErrNotQuiescent struct{ Dump string }

func (e *ErrNotQuiescent) Error() string { return "sim: system did not become quiescent" }

// Quiesce returns once every goroutine except the caller is parked in a blocking primitive, confirmed on
// two consecutive samples. In the closed world nothing can then run until the caller acts.
func Quiesce() error { return QuiesceTimeout(30 * time.Second) }

func QuiesceTimeout(limit time.Duration) error {
	deadline := time.Now().Add(limit)
	stable := 0
	spins := 0
	for {
		runtime.Gosched()
		busy := false
		self := 0
		for _, g := range Goroutines() {
			if g.Status == "running" {
				self++
				if self > 1 {
					busy = true
				}
				continue
			}
			if blockedStatus(g.Status) || ignorable(g) {
				continue
			}
			busy = true
		}
		if !busy {
			stable++
			if stable >= 3 {
				return nil
			}
			if stable == 2 {
				// let anything that was about to be made runnable show itself before the deciding sample
				time.Sleep(30 * time.Microsecond)
			}
			continue
		}
		stable = 0
		spins++
		if spins > 50 {
			time.Sleep(20 * time.Microsecond)
		}
		if spins%1000 == 0 && time.Now().After(deadline) {
			buf := make([]byte, 1<<20)
			n := runtime.Stack(buf, true)
			return &ErrNotQuiescent{Dump: string(buf[:n])}
		}
	}
}

// RepoGoroutines lists goroutines whose stack or creator lies in a go-orbit-db package (excluding the
// harness itself), in a canonical textual form: "created-by-function @ innermost-repo-function [status]".
func RepoGoroutines() []string {
	var out []string
	for _, g := range Goroutines() {
		if g.Status == "running" {
			continue
		}
		if !strings.Contains(g.Stack, "berty.tech/go-orbit-db/") {
			continue
		}
		inner := ""
		for _, line := range strings.Split(g.Stack, "\n") {
			if strings.HasPrefix(line, "berty.tech/go-orbit-db/") {
				inner = line
				if p := strings.LastIndexByte(inner, '('); p > 0 {
					inner = inner[:p]
				}
				break
			}
		}
		out = append(out, fmt.Sprintf("%s @ %s [%s]", g.Created, inner, g.Status))
	}
	return out
}
