package sim

import (
	"context"
	"reflect"
	"sync"

	orbitdb "berty.tech/go-orbit-db"
	"berty.tech/go-orbit-db/iface"
	"github.com/libp2p/go-libp2p/core/event"
	"github.com/libp2p/go-libp2p/p2p/host/eventbus"
)

// Bus wraps the real libp2p event bus; monitors run synchronously inside Emit, in the emitting
// goroutine, before the event is forwarded to subscribers.
type Bus struct {
	inner event.Bus
	mu    sync.Mutex
	mons  []func(evt interface{})
}

func NewBus() *Bus { return &Bus{inner: eventbus.NewBus()} }

func (b *Bus) Monitor(f func(evt interface{})) {
	b.mu.Lock()
	b.mons = append(b.mons, f)
	b.mu.Unlock()
}

func (b *Bus) Subscribe(t interface{}, opts ...event.SubscriptionOpt) (event.Subscription, error) {
	return b.inner.Subscribe(t, opts...)
}

func (b *Bus) Emitter(t interface{}, opts ...event.EmitterOpt) (event.Emitter, error) {
	e, err := b.inner.Emitter(t, opts...)
	if err != nil {
		return nil, err
	}
	return &busEmitter{Emitter: e, b: b}, nil
}

func (b *Bus) GetAllEventTypes() []reflect.Type { return b.inner.GetAllEventTypes() }

type busEmitter struct {
	event.Emitter
	b *Bus
}

func (e *busEmitter) Emit(evt interface{}) error {
	e.b.mu.Lock()
	mons := append([]func(interface{}){}, e.b.mons...)
	e.b.mu.Unlock()
	for _, m := range mons {
		m(evt)
	}
	return e.Emitter.Emit(evt)
}

// Durable state of a peer that survives instance restarts.
type durable struct {
	disk *Disk
	ks   *Keystore
}

var durMu sync.Mutex

func (p *Peer) Durable() (*Disk, *Keystore) {
	durMu.Lock()
	defer durMu.Unlock()
	if p.dur == nil {
		ks := NewKeystore()
		ks.peer = p
		p.dur = &durable{disk: NewDisk(), ks: ks}
	}
	return p.dur.disk, p.dur.ks
}

// SetDurable installs recovered durable state (crash recovery worlds).
func (p *Peer) SetDurable(d *Disk, ks *Keystore) {
	durMu.Lock()
	ks.peer = p
	p.dur = &durable{disk: d, ks: ks}
	durMu.Unlock()
}

// Instance is one process lifetime of an OrbitDB instance on a peer.
type Instance struct {
	Peer  *Peer
	DB    iface.OrbitDB
	Bus   *Bus
	Cache *Cache
	Ctx   context.Context
	Stop  context.CancelFunc
}

const Directory = "/sim"

// InstanceOptions selects optional seams.
type InstanceOptions struct {
	NoSharedBus bool // leave EventBus nil so that the instance creates its own default bus
	// DirectChannelFactory overrides the simulated direct channel (e.g. the real stream-based adapter
	// over a FakeHost).
	DirectChannelFactory iface.DirectChannelFactory
}

// Start boots an OrbitDB instance on the peer over the simulated environment.
func (p *Peer) Start(opts *InstanceOptions) (*Instance, error) {
	if opts == nil {
		opts = &InstanceOptions{}
	}
	disk, ks := p.Durable()
	ctx, cancel := context.WithCancel(context.Background())
	dir := Directory
	inst := &Instance{Peer: p, Ctx: ctx, Stop: cancel, Cache: NewCache(p, disk)}
	o := &orbitdb.NewOrbitDBOptions{
		Directory:            &dir,
		Keystore:             ks,
		Cache:                inst.Cache,
		DirectChannelFactory: p.net.PubSub.DirectChannelFactory(p),
		PubSub:               p.net.PubSub.PubSubFor(p),
	}
	if opts.DirectChannelFactory != nil {
		o.DirectChannelFactory = opts.DirectChannelFactory
	}
	if !opts.NoSharedBus {
		inst.Bus = NewBus()
		o.EventBus = inst.Bus
	}
	db, err := orbitdb.NewOrbitDB(ctx, p.API(), o)
	if err != nil {
		cancel()
		return nil, err
	}
	inst.DB = db
	return inst, nil
}

// Close closes the instance (clean shutdown).
func (i *Instance) Close() error {
	err := i.DB.Close()
	i.Stop()
	return err
}
