#!/bin/bash
# MANIFEST.setup_cmd: build the explorer once (warms the Go build cache), offline.
set -e
cd "$(dirname "$0")"
export GOFLAGS=-mod=mod GOPROXY=off GOSUMDB=off GOTOOLCHAIN=local
mkdir -p bin evidence replays
cp /repo/go.sum mc/go.sum
(cd mc && go build -tags verif -o ../bin/verifmc ./cmd/verifmc)
echo "setup ok"
