#!/usr/bin/env python3
"""Generates /verif/MANIFEST.json from the table below (keeps it schema-valid at all times)."""
import json, os, subprocess
HERE = os.path.dirname(os.path.dirname(os.path.abspath(__file__)))

CHECKS = {
 "C06": dict(cat="model_checking", ref="5/C06",
   text="Explicit-state search of the real key-value store: every sequence of Put/Delete by 1-3 writers with arbitrarily interleaved merges up to the depth bound is executed on fresh real instances; after every step on every replica Get/All must equal the last-writer-wins replay of the log's own order, and that order must extend happens-before. Within the bounds this is a coverage statement, which a sampled test cannot give.",
   note="Trusted: the simulated IPFS/cache/keystore environment (mc/sim), go-ipfs-log's Values() as the definition of the log order, quiescence detection by goroutine status. Bounds: quick 2 writers depth 5 (3-op alphabet) / depth 4 (5-op alphabet), 3 writers depth 3; thorough deeper.",
   tech="explicit-state DFS by replay over the real implementation, visited-state pruning, reference-model oracle in every state"),
}
NOT_APPLICABLE = []
ALL = ["C%02d" % i for i in range(1, 21)]

def main():
    repo_hooks = subprocess.run(["git", "-C", "/repo", "log", "--format=%H %s"], capture_output=True, text=True).stdout.splitlines()
    hook_commits = [l.split()[0] for l in repo_hooks if " verif:" in " " + l.split(" ", 1)[1] or l.split(" ", 1)[1].startswith("verif:")]
    checks = []
    for pid in ALL:
        if pid not in CHECKS:
            continue
        c = CHECKS[pid]
        checks.append({
            "property_id": pid,
            "quick_cmd": "./check %s quick" % pid,
            "thorough_cmd": "./check %s thorough" % pid,
            "evidence_file": "/verif/evidence/%s.json" % pid,
            "replay_cmd_template": "./check %s --replay {path}" % pid,
            "engine": "verifmc",
            "level_claimed": {"category": c["cat"], "text": c["text"], "design_ref": c["ref"]},
            "level_note": c["note"],
            "technique": c["tech"],
        })
    na = [x for x in NOT_APPLICABLE]
    claimed = set(CHECKS) | {x["property_id"] for x in na}
    for pid in ALL:
        if pid not in claimed:
            na.append({"property_id": pid, "reason": "check not built yet in this snapshot of /verif (work in progress; see DESIGN.md section 5 for the planned bounded exhaustive exploration)"})
    m = {
        "version": 1,
        "setup_cmd": "./setup.sh",
        "hooks": {
            "guard": "verif (Go build tag)",
            "enable": "go build -tags verif (done by ./check); schedule points live in /repo/verifhook and are empty without the tag",
            "baseline_off_cmd": "cd /repo && GOFLAGS=-mod=mod GOPROXY=off GOSUMDB=off GOTOOLCHAIN=local go test -mod=mod -json -vet=off -count=1 -timeout 25m ./...",
            "source_commits": hook_commits,
            "add_only": True,
        },
        "engines": [{
            "name": "verifmc", "path": "/verif/mc",
            "serves_properties": sorted(CHECKS),
            "kind_free_text": "hand-written model checker for Go: deterministic simulated environment (IPFS DAG, pubsub, direct channel, cache, keystore) around the real go-orbit-db packages, quiescence detection by goroutine status, explicit-state DFS by replay with visited-state pruning, gate-level schedule enumeration, crash-prefix enumeration, worker-process sharding with crash attribution",
        }],
        "checks": checks,
        "not_applicable": na,
        "notes": "Every check rebuilds mc/cmd/verifmc against /repo's working tree with -tags verif. known_findings.json lists genuine defects recorded rather than repaired; see DESIGN.md section 8.",
    }
    json.dump(m, open(os.path.join(HERE, "MANIFEST.json"), "w"), indent=1)
    print("MANIFEST.json: %d checks, %d not_applicable" % (len(checks), len(na)))

if __name__ == "__main__":
    main()
