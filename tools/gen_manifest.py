#!/usr/bin/env python3
"""Generates /verif/MANIFEST.json from the table below (keeps it schema-valid at all times)."""
import json, os, subprocess
HERE = os.path.dirname(os.path.dirname(os.path.abspath(__file__)))

CHECKS = {
 "C06": dict(cat="model_checking", ref="5/C06",
   text="Explicit-state search of the real key-value store: every sequence of Put/Delete by 1-3 writers with arbitrarily interleaved merges up to the depth bound is executed on fresh real instances; after every step on every replica Get/All must equal the last-writer-wins replay of the log's own order, and that order must extend happens-before. Within the bounds this is a coverage statement, which a sampled test cannot give.",
   note="Trusted: the simulated IPFS/cache/keystore environment (mc/sim), go-ipfs-log's Values() as the definition of the log order, quiescence detection by goroutine status. Bounds: quick 2 writers depth 5 (3-op alphabet) / depth 4 (5-op alphabet), 3 writers depth 3; thorough deeper.",
   tech="explicit-state DFS by replay over the real implementation, visited-state pruning, reference-model oracle in every state"),
}
CHECKS.update({
 "C01": dict(cat="model_checking", ref="5/C01",
   text="Explicit-state search over write/merge histories of 2-3 writers for all three store types, with an observer replica that receives heads by manual sync, topic message and direct-channel payload (including arbitrary single entries and concurrent pairs in both list orders), restarts with load from the cache, and snapshot save/reload; gated-merge units enumerate the release orders of a merging replica's block fetches with a local write and a duplicate announcement in flight. In every state every replica is compared differentially (same entry set => identical ordered list, heads and view as the first path that reached that set) and against the (time, writer) reference order and its replay.",
   note="Trusted: sim environment, quiescence detection; fetch completion order within one announcement is scheduler-chosen in the ungated units and enumerated (deviation-bounded) in the gated-merge units. Bounds in evidence (writers, depth, routes).",
   tech="explicit-state DFS by replay over the real implementation with differential + reference-model oracle"),
 "C07": dict(cat="model_checking", ref="5/C07",
   text="Explicit-state search of the real document store: all sequences of Put/PutAll/PutBatch/Delete on overlapping mixed-case keys by 1-3 writers with interleaved merges; after every step Get (8 search keys x 4 option combinations) and Query (4 predicates) must equal the matching documents of the last-writer-wins replay in which a batch member counts as a put; Delete of an absent key must be refused.",
   note="Trusted: sim environment, Values() as log order. Search keys with spaces and empty document keys excluded as in the property.",
   tech="explicit-state DFS by replay over the real implementation, reference-model oracle in every state"),
 "C08": dict(cat="model_checking", ref="5/C08",
   text="Explicit-state search over Add/merge histories of 2-3 writers on the real event log store; in every state: listing equals log order, ancestors first, per-writer order, every range query (every bound kind x every entry x 7 amounts) equals the index window, Get by address; around every action the old listing must be a subsequence of the new one.",
   note="Trusted: sim environment. Amount 0 accepted as any anchored window of length <= 1; bounds outside the log excluded.",
   tech="explicit-state DFS by replay over the real implementation, exhaustive query cross product in every state"),
 "C16": dict(cat="model_checking", ref="5/C16",
   text="Part A: explicit-state search over write/merge/announce/restart histories with a monitor running synchronously inside every write/replicated emission (entries already in log, view and cached heads; exactly-once accounting) and a 1-slot-buffer bus subscriber that only reads between actions. Part B: all interleavings (deviation-bounded, executions run to completion; unbounded for the smallest configuration) of the legacy emitter's reader and drain goroutines at their three schedule points against producer and consumer after the delivery channel was filled; the subscriber must receive the emitted sequence exactly.",
   note="Trusted: sim environment; the three verifhook points (H3) are the complete set of interleaving points because every queue access happens under one mutex. Deviation bound and K/R in evidence.",
   tech="explicit-state DFS with synchronous emission monitors (A); stateless deviation-bounded schedule enumeration over hooked schedule points (B)"),
 "C19": dict(cat="model_checking", ref="5/C19",
   text="Explicit-state search over histories of writes, merges, announcements, restarts with load and snapshot round trips; (progress,max) sampled inside every event emission and at every quiescent state must never decrease while the store is open, and at rest progress == max with max Lamport time <= value <= entry count. A lock-granularity unit (store, index and status files built with a sync shim; hook H6 before the replicator's emissions) runs a writer against a concurrent replication merge with every lock acquisition as a schedule point (preemption-bounded) and samples the status after every step.",
   note="Trusted: sim environment; one database per instance; samples are linearised by reading under one lock.",
   tech="explicit-state DFS by replay with invariant monitors at every emission and every quiescent state"),
 "C17": dict(cat="model_checking", ref="5/C17",
   text="Stateless schedule enumeration of N concurrent writers on one real store, each stepped through the points begin / after append / after head persisted / after view update: every interleaving for N=2 (and N=3 in thorough), deviation-bounded for N up to 8; lock-granularity units build the store and index files with a sync shim so that every Lock/RLock is a schedule point (two writers; one writer against a concurrent replication merge; preemption-bounded); each execution runs to completion, then the instance is closed, reopened on the same cache and loaded. Acknowledged calls must have returned pairwise distinct entries, each listed exactly once before and after the restart.",
   note="Trusted: sim environment (atomic durable cache puts); interleaving points are the H4/H5 hooks and, in the lock-granularity units, every Lock/RLock of stores/basestore and the three index files (mc/shim/vsync.go.txt applied through go build -overlay by tools/shim_overlay.py; the files are /repo's own); code between points runs freely.",
   tech="stateless model checking: exhaustive / deviation-bounded schedule enumeration of the real write path under a cooperative scheduler at hooked points"),
 "C03": dict(cat="exploration", ref="5/C03",
   text="Exhaustive enumeration of a finite case family on fresh worlds: write list x controller (ipfs; simple and orbitdb via manifest; simple via the store constructor) x route (local write, sync, topic, direct channel, ancestor behind an authorised colluder) x forging mode (five ways of faking the author fields, built from raw entry structs and signed with the attacker's keys) x position among honest heads. The forged entry must be absent from every victim log and view; the local write must fail and change nothing.",
   note="Trusted: sim environment; which entries are genuinely authored is known by construction of each forging mode. Controllers with which no database can be built through the public API (simple via manifest, orbitdb) are recorded as skipped.",
   tech="exhaustive enumeration of a finite adversarial input family against the real implementation (bounded exploration, no sampling)"),
 "C10": dict(cat="model_checking", ref="5/C10",
   text="For every rejected-head kind x valid-head shape x layout of the announcement(s) x route, every completion order of the victim's gated block fetches is enumerated (stateless schedule DFS), followed by an honest re-announcement and all its fetch orders; at quiescence every valid entry must be in the victim's log and view and no forbidden entry may be.",
   note="Trusted: sim environment; fetches are the only interleaving points (each is a gate). Deviation bound 2 in quick, unbounded in thorough.",
   tech="stateless schedule enumeration (fetch completion orders) of the real replication path under gated environment calls"),
 "C11": dict(cat="model_checking", ref="5/C11",
   text="A scripted sequence of Sync requests (1-2 cancellable, then a final uncancelled one) on a replica with replication concurrency 1, 2 and default; every block fetch and the replicator's schedule points are gated; all executions with a bounded number of deviations (cancel at this step, issue next request early, fail a fetch, release another goroutine first) run to quiescence; all entries reachable from the final heads must then be visible. A second family reopens a replica with a persisted log and runs Load(ctx) with every block read gated, cancels it at any step, then runs an uncancelled Load.",
   note="Trusted: sim environment; hooks H2. One residual class is a recorded known finding (final request overlapping a not-yet-settled aborted request).",
   tech="stateless deviation-bounded schedule enumeration with cancellation and fault injection at hooked schedule points"),
 "C02": dict(cat="model_checking", ref="5/C02",
   text="Explicit-state search over a network of 2-3 replicating replicas: writes, delivery/drop/duplication of any in-flight topic or direct-channel message, link cuts and heals, peer restarts, within stated budgets; from every explored state a final phase (reconnect every pair, deliver everything, no further fault) is run on a fresh replay and every replica must then hold every acknowledged write and show the same state.",
   note="Trusted: sim network semantics (fetch succeeds iff a linked peer holds the block; reconnection makes both sides see a join). Final phase uses canonical delivery order.",
   tech="explicit-state DFS by replay over the real implementation with fault actions and a final-phase convergence oracle from every state"),
 "C09": dict(cat="model_checking", ref="5/C09",
   text="Explicit-state search over an instance holding 2-4 databases on its shared event bus plus a remote writer: write, load, remote write, direct-channel head exchange and message delivery in every order up to the depth bound, including databases that share a name and gated (parked) announcements; after every action every database not named by the action must be unchanged (entries, heads, view, cached heads, replication status, emitted events) and every message and store event must carry only its own database's address and entries.",
   note="Trusted: sim environment; the instance bus is the real libp2p bus wrapped only for observation.",
   tech="explicit-state DFS by replay over the real implementation with frame-condition (non-interference) oracle at every step"),
 "C05": dict(cat="model_checking", ref="5/C05",
   text="All histories up to the depth bound of local writes, remote writes, syncs and snapshot saves on a replica (three store types); for every history EVERY prefix of the replica's ordered persistence-effect log (block writes, cache puts, keystore puts) is turned into a crash image from which the database is reopened and loaded in isolation; recovered entries must include every acknowledged entry, only written entries, be closed under ancestry and show the reference state; identity unchanged and writable. The same crash-prefix enumeration is run over every interleaving of two concurrent writers at the write path's schedule points. Clean close/reopen cycles run on real leveldb directories.",
   note="Trusted: each effect is atomic and durable on return (property's assumption); effects are observed at the simulated cache/keystore/blockstore seams. On-disk part covers clean shutdowns only.",
   tech="exhaustive crash-point enumeration (every prefix of the persistence-effect log of every explored history) with recovery on the real implementation"),
 "C18": dict(cat="exploration", ref="5/C18",
   text="Exhaustive cross product on fresh worlds: store type x moment (idle, in-flight write parked at each of 6 points, in-flight replication parked at each of 5 points, in-flight Load parked in a fetch) x injection (Close, Close twice, instance Close, instance Close twice, Drop, Close then Drop, Close + reopen + stale Close + instance Close) x with/without sibling database; then everything parked is released and every operation is issued on the closed object. State-based oracle at quiescence: all calls returned, no panic (worker crash attribution), surviving go-orbit-db goroutines equal the pre-open baseline, reopen+load yields all acknowledged data, Drop scoped to one database.",
   note="Trusted: sim environment, goroutine-status quiescence, attribution of goroutines by stack frames. The moment of the injection is controlled by gates/hooks; what runs after the release is scheduler-chosen.",
   tech="exhaustive enumeration of injection points (gated environment calls and hooked schedule points) x injections against the real implementation, state-based hang/leak detection"),
 "C15": dict(cat="exploration", ref="5/C15",
   text="Exhaustive cross product on fresh worlds with crash attribution: 13 persisted log shapes (single-writer chains 0..6, replicated-only, two/three heads, merged) x every limit from -2 to length+2 x three ways of giving the limit; reopen over the persisted cache and load. No panic/error/hang; exactly min(n,total) entries listed, in log order, containing the newest, and exactly the last n for single-writer logs.",
   note="Trusted: sim environment; MaxHistory is given through the store constructor.",
   tech="exhaustive enumeration of a finite input family (log shapes x limits) against the real implementation in crash-isolated workers"),
 "C13": dict(cat="exploration", ref="5/C13",
   text="Exhaustive cross product on fresh worlds with crash attribution: 8 log shapes (incl. replication in progress while saving) x 3 store types x 12 payload-size landmarks, plus windows of consecutive sizes around the measured payload sizes at which the marshalled entry and header cross the 16-bit length limit. Save, restart on the same cache and blockstore, load from snapshot: a save error passes, otherwise the reload must reproduce entries, order, heads and view; panic or hang is a violation.",
   note="Trusted: sim environment with boxo's real unixfs importer/reader. Sizes are a boundary family, not every integer.",
   tech="exhaustive enumeration of a finite boundary-value input family against the real implementation in crash-isolated workers"),
 "C12": dict(cat="exploration", ref="5/C12",
   text="Four completely enumerated input families (all byte strings of length <= 2 plus 3-symbol JSON strings; structural address x heads shapes and all single/pair field corruptions of a real head; byte-level mutations and truncations of a real message; boundary/overflowing/over-long/truncated frame lengths) fed to three entry points (topic listener, direct-channel monitor, raw stream frames into the real stream adapter) in crash-isolated workers; the process must survive, the victim's contents must be unchanged and a valid announcement sent afterwards must still be merged.",
   note="Trusted: sim environment, in-memory host/stream double for the stream adapter. 'Every byte string' is decided for the stated finite families.",
   tech="exhaustive enumeration of finite malformed-input families against the real decoders and handlers, crash attribution by journalled worker processes"),
 "C04": dict(cat="exploration", ref="5/C04",
   text="Exhaustive cross product on fresh worlds: three valid entries (root, chain member with refs, merge entry) x 29 single-field wire mutations x delivery (original claimed hash, recomputed hash, ancestor behind an authorised colluder's head) x route x victim pre-state. Each mutant is classified independently (mis-addressed, signature invalid per the dependency's verifier, foreign log id); classified mutants must never appear in the victim's entry map, listing or heads, and held entries and view must be unchanged.",
   note="Trusted: sim environment (content-addressed blocks), go-ipfs-log's entry.Verify as the definition of signature validity. Identity-block mutations are recorded here and judged by C03.",
   tech="exhaustive enumeration of a finite mutation family against the real implementation with an independent classifier as oracle"),
 "C14": dict(cat="exploration", ref="5/C14",
   text="Exhaustive cross product of 31 names (including dot/parent-directory segments and names that contain another database's manifest address) x 3 types x 6 write lists on three peers: address determinism across peers, pairwise inequality over the whole enumerated set, parse round trip, Create == DetermineAddress, Open on another peer yields recorded type and write list, local-only open of unknown and Create over existing refused, overwrite accepted.",
   note="Trusted: sim environment (content-addressed blocks shared between peers). Restricted to inputs Create accepts.",
   tech="exhaustive enumeration of a finite input family against the real implementation with pairwise comparison over the whole set"),
 "C20": dict(cat="exploration", ref="5/C20",
   text="The three bundled adapters that can be driven without real network timers are exercised over scripted doubles (pubsubraw additionally over real in-memory libp2p hosts with receipt-based waiting): every sequence of <= 3/4 membership snapshots (sets in every list order) through the stepped poll loop of pubsubcoreapi; every message sequence of length <= 3 over 3 senders x 3 payload sizes through the topic adapter and the one-on-one monitor; channel-name symmetry and distinctness for all ordered pairs of 5 peers; direct-channel frames for 10 boundary sizes and all 6 interleavings of two senders.",
   note="Trusted: scripted PubSub API and in-memory host/stream doubles. pubsubraw's internal timers are not owned: that sub-check enumerates inputs only and ends inconclusive (no alarm) when the library does not deliver in time; oneonone sequences are limited by the adapter's fixed one-second connect wait.",
   tech="exhaustive enumeration of finite input/snapshot sequences against the real adapters over scripted environment doubles"),
})
NOT_APPLICABLE = []
ALL = ["C%02d" % i for i in range(1, 21)]

def main():
    repo_hooks = subprocess.run(["git", "-C", "/repo", "log", "--format=%H %s"], capture_output=True, text=True).stdout.splitlines()
    hook_commits = [l.split()[0] for l in repo_hooks if " verif:" in " " + l.split(" ", 1)[1] or l.split(" ", 1)[1].startswith("verif:")]
    checks = []
    for pid in ALL:
        if pid not in CHECKS:
            continue
        c = CHECKS[pid]
        checks.append({
            "property_id": pid,
            "quick_cmd": "./check %s quick" % pid,
            "thorough_cmd": "./check %s thorough" % pid,
            "evidence_file": "/verif/evidence/%s.json" % pid,
            "replay_cmd_template": "./check %s --replay {path}" % pid,
            "engine": "verifmc",
            "level_claimed": {"category": c["cat"], "text": c["text"], "design_ref": c["ref"]},
            "level_note": c["note"],
            "technique": c["tech"],
        })
    na = [x for x in NOT_APPLICABLE]
    claimed = set(CHECKS) | {x["property_id"] for x in na}
    for pid in ALL:
        if pid not in claimed:
            na.append({"property_id": pid, "reason": "check not built yet in this snapshot of /verif (work in progress; see DESIGN.md section 5 for the planned bounded exhaustive exploration)"})
    m = {
        "version": 1,
        "setup_cmd": "./setup.sh",
        "hooks": {
            "guard": "verif (Go build tag)",
            "enable": "go build -tags verif (done by ./check); schedule points live in /repo/verifhook and are empty without the tag",
            "baseline_off_cmd": "cd /repo && GOFLAGS=-mod=mod GOPROXY=off GOSUMDB=off GOTOOLCHAIN=local go test -mod=mod -json -vet=off -count=1 -timeout 25m ./...",
            "source_commits": hook_commits,
            "add_only": True,
        },
        "engines": [{
            "name": "verifmc", "path": "/verif/mc",
            "serves_properties": sorted(CHECKS),
            "kind_free_text": "hand-written model checker for Go: deterministic simulated environment (IPFS DAG, pubsub, direct channel, cache, keystore) around the real go-orbit-db packages, quiescence detection by goroutine status, explicit-state DFS by replay with visited-state pruning, gate-level schedule enumeration, crash-prefix enumeration, worker-process sharding with crash attribution",
        }],
        "checks": checks,
        "not_applicable": na,
        "notes": "Every check rebuilds mc/cmd/verifmc against /repo's working tree with -tags verif. known_findings.json lists genuine defects recorded rather than repaired; see DESIGN.md section 8.",
    }
    json.dump(m, open(os.path.join(HERE, "MANIFEST.json"), "w"), indent=1)
    print("MANIFEST.json: %d checks, %d not_applicable" % (len(checks), len(na)))

if __name__ == "__main__":
    main()
