#!/bin/bash
# tools/mutant.sh <patch.diff | revert:<commit>> <ID> [tier]
# Runs a check against /repo with a change applied through `go build -overlay` (the repository itself is
# not touched). revert:<commit> re-introduces the behaviour that a fix commit repaired.
set -eu
cd "$(dirname "$0")/.."
SRC="$1"; ID="$2"; TIER="${3:-quick}"
T=$(mktemp -d /tmp/verif-mutant.XXXXXX)
trap 'rm -rf "$T"' EXIT
REV=""
if [[ "$SRC" == revert:* ]]; then
  git -C /repo show "${SRC#revert:}" > "$T/p.diff"; REV="-R"
else
  cp "$SRC" "$T/p.diff"
fi
FILES=$(grep -E '^\+\+\+ b/' "$T/p.diff" | sed 's|^+++ b/||')
OLDS=$(grep -E '^--- a/' "$T/p.diff" | sed 's|^--- a/||')
ALL=$(printf "%s\n%s\n" "$FILES" "$OLDS" | sort -u | grep -v '^/dev/null$' || true)
mkdir -p "$T/tree"
for f in $ALL; do
  mkdir -p "$T/tree/$(dirname "$f")"
  [ -f "/repo/$f" ] && cp "/repo/$f" "$T/tree/$f"
done
(cd "$T/tree" && patch -s -p1 $REV < "$T/p.diff")
{
  echo '{"Replace":{'
  first=1
  for f in $ALL; do
    [ $first -eq 1 ] || echo ','
    first=0
    if [ -f "$T/tree/$f" ]; then printf '"/repo/%s":"%s"' "$f" "$T/tree/$f"; else printf '"/repo/%s":""' "$f"; fi
  done
  echo '}}'
} > "$T/overlay.json"
mkdir -p "$T/ev"
VERIF_OVERLAY="$T/overlay.json" VERIF_EVIDENCE_DIR="$T/ev" ./check "$ID" "$TIER"
