#!/bin/bash
# tools/overlay.sh <patch.diff | revert:<commit>> <dir>  — writes <dir>/overlay.json (go build -overlay) applying the change
# to copies of /repo's files under <dir>/tree; used by mutant.sh-like runs of other binaries (debugging).
set -eu
SRC="$1"; T="$2"; mkdir -p "$T/tree"
REV=""
if [[ "$SRC" == revert:* ]]; then git -C /repo show "${SRC#revert:}" > "$T/p.diff"; REV="-R"; else cp "$SRC" "$T/p.diff"; fi
ALL=$( (grep -E '^\+\+\+ b/' "$T/p.diff" | sed 's|^+++ b/||'; grep -E '^--- a/' "$T/p.diff" | sed 's|^--- a/||') | sort -u | grep -v '^/dev/null$' || true)
for f in $ALL; do mkdir -p "$T/tree/$(dirname "$f")"; [ -f "/repo/$f" ] && cp "/repo/$f" "$T/tree/$f"; done
(cd "$T/tree" && patch -s -p1 $REV < "$T/p.diff")
{ echo '{"Replace":{'; first=1; for f in $ALL; do [ $first -eq 1 ] || echo ','; first=0; printf '"/repo/%s":"%s"' "$f" "$T/tree/$f"; done; echo '}}'; } > "$T/overlay.json"
