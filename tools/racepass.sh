#!/bin/bash
# tools/racepass.sh [rounds] [patch.diff | revert:<commit>]
# ADVISORY, not a verdict and not registered in MANIFEST.json: builds the explorer with -race and runs the
# bodies of the concurrency harnesses free-running (scen/racepass.go), then the C17 quick tier under the
# cooperative scheduler with the detector on (stretches between schedule points run on the real scheduler).
# The cooperative scheduler's hand-offs are happens-before edges, so only the free-running bodies can show
# races between the hooked steps themselves. Reports distinct races by their go-orbit-db frames.
set -u
cd "$(dirname "$0")/.."
export GOFLAGS=-mod=mod GOPROXY=off GOSUMDB=off GOTOOLCHAIN=local VERIF_DIR="$(pwd)"
ROUNDS="${1:-5}"; SRC="${2:-}"
T=$(mktemp -d /tmp/verif-race.XXXXXX)
trap 'rm -rf "$T"' EXIT
OVERLAY=()
if [ -n "$SRC" ]; then
  REV=""
  if [[ "$SRC" == revert:* ]]; then git -C /repo show "${SRC#revert:}" > "$T/p.diff"; REV="-R"; else cp "$SRC" "$T/p.diff"; fi
  ALL=$( (grep -E '^\+\+\+ b/' "$T/p.diff" | sed 's|^+++ b/||'; grep -E '^--- a/' "$T/p.diff" | sed 's|^--- a/||') | sort -u | grep -v '^/dev/null$' || true)
  mkdir -p "$T/tree"
  for f in $ALL; do mkdir -p "$T/tree/$(dirname "$f")"; [ -f "/repo/$f" ] && cp "/repo/$f" "$T/tree/$f"; done
  (cd "$T/tree" && patch -s -p1 $REV < "$T/p.diff")
  { echo '{"Replace":{'; first=1; for f in $ALL; do [ $first -eq 1 ] || echo ','; first=0; printf '"/repo/%s":"%s"' "$f" "$T/tree/$f"; done; echo '}}'; } > "$T/overlay.json"
  OVERLAY=(-overlay "$T/overlay.json")
fi
cp /repo/go.sum mc/go.sum 2>/dev/null
(cd mc && go build -race -tags verif "${OVERLAY[@]}" -o "$T/verifmc-race" ./cmd/verifmc) || { echo "racepass: build failed"; exit 0; }
mkdir -p "$T/log" "$T/ev"
export GORACE="log_path=$T/log/r halt_on_error=0 exitcode=0"
"$T/verifmc-race" racepass "$ROUNDS"
VERIF_EVIDENCE_DIR="$T/ev" VERIF_WORKERS=8 "$T/verifmc-race" check C17 quick | tail -1
N=$(cat "$T"/log/* 2>/dev/null | grep -c "WARNING: DATA RACE")
echo "racepass: data race reports=$N"
# distinct races: the first go-orbit-db frame of each of the two conflicting accesses
cat "$T"/log/* 2>/dev/null | awk '
  /WARNING: DATA RACE/ {if (key!="") seen[key]++; key=""; acc=0}
  /^(Write|Read|Previous write|Previous read) at/ {acc=1; got=0; next}
  /^Goroutine/ {acc=0}
  acc && !got && /berty.tech\/go-orbit-db/ && !/verifhook/ {sub(/^ +/,""); key=key " <> " $0; got=1}
  END {if (key!="") seen[key]++; for (k in seen) print "  " seen[k] "x" k}'
exit 0
