#!/bin/bash
# tools/replay_finding.sh <fix-commit> <ID> <replay.json>
# Re-executes the recorded history of a repaired defect against /repo with that fix commit reverted (through
# go build -overlay; /repo untouched): prints the observations and exits 1 iff the violation shows again.
set -eu
cd "$(dirname "$0")/.."
T=$(mktemp -d /tmp/verif-finding.XXXXXX); trap 'rm -rf "$T"' EXIT
tools/overlay.sh "revert:$1" "$T/o" >/dev/null
VERIF_OVERLAY="$T/o/overlay.json" VERIF_EVIDENCE_DIR="$T/ev" ./check "$2" --replay "$3"
