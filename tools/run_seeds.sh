#!/bin/bash
# tools/run_seeds.sh [name-filter]  — runs every seeded change against the check(s) listed in its meta.json
# (change applied through go build -overlay; /repo untouched) and writes seeded/RESULTS.md.
cd "$(dirname "$0")/.."
OUT=seeded/RESULTS.md
if [ -n "${1:-}" ] && [ -f $OUT ]; then
  # partial run: keep the other rows, replace the rows of the selected seeds
  grep -v "^| [^|]*$1" $OUT > $OUT.tmp; mv $OUT.tmp $OUT
else
{
echo "# Seeded changes versus checks"
echo
echo "Each row: the change under seeded/<name>/ applied with tools/mutant.sh, the quick tier of the listed check run once."
echo
echo "| seeded change | property | check | verdict | signatures reported |"
echo "|---|---|---|---|---|"
} > $OUT
fi
for d in seeded/*/; do
  n=$(basename $d)
  [ -n "${1:-}" ] && [[ "$n" != *"$1"* ]] && continue
  [ -f "$d/meta.json" ] || continue
  prop=$(python3 -c "import json;print(json.load(open('$d/meta.json'))['breaks_property'])")
  checks=$(python3 -c "import json;print(' '.join(json.load(open('$d/meta.json'))['caught_by']))")
  patch="$d/patch.diff"; [ -f "$d/patch.rebased.diff" ] && patch="$d/patch.rebased.diff"
  for c in $checks; do
    log=$(tools/mutant.sh "$patch" "$c" quick 2>&1)
    sigs=$(echo "$log" | grep "signature:" | sed 's/.*signature: //' | sort -u | head -4 | paste -sd';' | cut -c1-160)
    if echo "$log" | grep -q "^VIOLATION property=$c"; then v="caught"; elif echo "$log" | grep -q "FAILED\|HARNESS"; then v="patch/build problem"; else v="MISSED"; fi
    echo "| $n | $prop | $c | $v | $sigs |" >> $OUT
    echo "$n vs $c: $v"
  done
done
