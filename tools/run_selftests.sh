#!/bin/bash
# tools/run_selftests.sh — hand-written property-breaking changes under selftest/*.diff (named <ID>-<what>.diff),
# each applied through go build -overlay and run against the quick tier of its check. Unlike the seeded
# changes they were written with knowledge of the checks and are not required to pass the repository's
# tests; they only demonstrate that a check fails when its property is broken in a particular way.
cd "$(dirname "$0")/.."
OUT=selftest/RESULTS.md
{
echo "# Hand-written changes versus checks"
echo
echo "| change | check | verdict | signatures reported |"
echo "|---|---|---|---|"
} > $OUT
for f in selftest/*.diff; do
  n=$(basename $f .diff); c=${n%%-*}
  log=$(tools/mutant.sh "$f" "$c" quick 2>&1)
  sigs=$(echo "$log" | grep "signature:" | sed 's/.*signature: //' | sort -u | head -3 | paste -sd';' | cut -c1-150)
  if echo "$log" | grep -q "^VIOLATION property=$c"; then v="caught"; elif echo "$log" | grep -q "FAILED\|HARNESS"; then v="patch/build problem"; else v="MISSED"; fi
  echo "| $n | $c | $v | $sigs |" >> $OUT
  echo "$n: $v"
done
