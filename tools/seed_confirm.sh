#!/bin/bash
# tools/seed_confirm.sh <seed-name> <worktree>
# Confirms a seeded change produced in a scratch worktree and stores it under /verif/seeded/<seed-name>/.
set -u
NAME="$1"; WT="$2"
export GOFLAGS=-mod=mod GOPROXY=off GOSUMDB=off GOTOOLCHAIN=local
OUT=/verif/seeded/$NAME; mkdir -p "$OUT"
cd "$WT" || exit 2
DEMOS=$(git status --porcelain | grep '^??' | awk '{print $2}' | grep '_test.go$' || true)
git diff -- . ':!SEEDED.md' > "$OUT/patch.diff"
for d in $DEMOS; do mkdir -p "$OUT/demo/$(dirname $d)"; cp "$d" "$OUT/demo/$d"; done
[ -f SEEDED.md ] && cp SEEDED.md "$OUT/SEEDED.md"
LOG="$OUT/confirm.log"; : > "$LOG"
echo "patch files: $(grep -c '^+++ ' $OUT/patch.diff) demo files: $DEMOS" >> "$LOG"
# (a) build with change
go build ./... >> "$LOG" 2>&1; echo "build_with_change_rc=$?" >> "$LOG"
# (b) existing suite with change (demo moved away)
mkdir -p /tmp/seedtmp-$NAME; for d in $DEMOS; do mkdir -p /tmp/seedtmp-$NAME/$(dirname $d); mv "$d" /tmp/seedtmp-$NAME/$d; done
go test -vet=off -count=1 -timeout 25m ./... > /tmp/seedtmp-$NAME/suite.log 2>&1; echo "suite_with_change_rc=$?" >> "$LOG"
grep -E "^(ok|FAIL|---)" /tmp/seedtmp-$NAME/suite.log | head -20 >> "$LOG"
for d in $DEMOS; do mv /tmp/seedtmp-$NAME/$d "$d"; done
# (c) demo with change
PK=$(for d in $DEMOS; do echo "./$(dirname $d)/"; done | sort -u)
NAMES=$(cat $DEMOS | grep -oE '^func (Test[A-Za-z0-9_]+)' | awk '{print $2}' | paste -sd'|')
go test -vet=off -count=1 -run "^($NAMES)\$" $PK > /tmp/seedtmp-$NAME/demo_with.log 2>&1; echo "demo_with_change_rc=$?" >> "$LOG"
# (d) demo without change
git stash -q
go test -vet=off -count=1 -run "^($NAMES)\$" $PK > /tmp/seedtmp-$NAME/demo_without.log 2>&1; echo "demo_without_change_rc=$?" >> "$LOG"
git stash pop -q
tail -5 /tmp/seedtmp-$NAME/demo_with.log >> "$LOG"
rm -rf /tmp/seedtmp-$NAME
cat "$LOG"
