#!/usr/bin/env python3
"""tools/seed_meta.py <seed-dir-name> <property> <needs> <caught_by comma list> [missed_by comma list]
Writes /verif/seeded/<name>/meta.json from the confirmation log."""
import json, sys, os, re
name, prop, needs, caught = sys.argv[1:5]
missed = sys.argv[5] if len(sys.argv) > 5 else ""
d = os.path.join(os.path.dirname(os.path.dirname(os.path.abspath(__file__))), "seeded", name)
log = open(os.path.join(d, "confirm.log")).read()
rc = dict(re.findall(r"(\w+)_rc=(\d+)", log))
meta = {
    "seed": name,
    "breaks_property": prop,
    "needs_to_manifest": needs,
    "source": "independent sub-agent given only the property text and a scratch worktree",
    "confirmed": {
        "builds_with_change": rc.get("build_with_change") == "0",
        "existing_suite_passes_with_change": rc.get("suite_with_change") == "0",
        "demo_fails_with_change": rc.get("demo_with_change") not in (None, "0"),
        "demo_passes_without_change": rc.get("demo_without_change") == "0",
        "commands": "tools/seed_confirm.sh (go build ./...; go test -vet=off -count=1 ./... with the demo moved aside; go test -run <demo> with and without the change)",
    },
    "checked_with": "tools/mutant.sh seeded/%s/patch.diff <ID> quick (change applied through go build -overlay; /repo untouched)" % name,
    "caught_by": [c for c in caught.split(",") if c],
    "missed_by_before_strengthening": [c for c in missed.split(",") if c],
}
json.dump(meta, open(os.path.join(d, "meta.json"), "w"), indent=1)
print("wrote", os.path.join(d, "meta.json"))
