#!/usr/bin/env python3
"""tools/shim_overlay.py <out-dir> [base-overlay.json]
Writes <out-dir>/overlay.json for `go build -overlay`: the files of /repo listed in SHIMMED are built with
their `"sync"` import replaced by the vsync shim (mc/shim/vsync.go.txt, added as the virtual package
berty.tech/go-orbit-db/verifhook/vsync), so that every Lock/RLock in them is a schedule point. The files are
read from /repo's current working tree, or from the replacement named by a base overlay (a change under
test applied by tools/mutant.sh), so the checks still decide the tree they are given."""
import json, os, re, sys
out = sys.argv[1]
base = json.load(open(sys.argv[2])) if len(sys.argv) > 2 and sys.argv[2] else {"Replace": {}}
here = os.path.dirname(os.path.dirname(os.path.abspath(__file__)))
SHIMMED = [
    "stores/basestore/base_store.go", "stores/basestore/base_index.go",
    "stores/replicator/replication_info.go",
    "stores/eventlogstore/index.go", "stores/kvstore/index.go", "stores/documentstore/index.go",
]
os.makedirs(out, exist_ok=True)
rep = dict(base.get("Replace", {}))
n = 0
targets = ["/repo/" + rel for rel in SHIMMED]
for real in targets:
    rel = real.replace("/repo/", "").lstrip("/")
    src = rep.get(real, real)
    if not src or not os.path.exists(src):
        continue
    text = open(src).read()
    new, k = re.subn(r'(?m)^(\s*)"sync"\s*$', r'\1sync "berty.tech/go-orbit-db/verifhook/vsync"', text)
    if k == 0:
        new, k = re.subn(r'(?m)^import "sync"\s*$', 'import sync "berty.tech/go-orbit-db/verifhook/vsync"', text)
    if k == 0:
        continue
    dst = os.path.join(out, rel.replace("/", "__"))
    open(dst, "w").write(new)
    rep[real] = dst
    n += 1
rep["/repo/verifhook/vsync/vsync.go"] = os.path.join(here, "mc", "shim", "vsync.go.txt")
json.dump({"Replace": rep}, open(os.path.join(out, "overlay.json"), "w"), indent=1)
print("shimmed %d files" % n, file=sys.stderr)
